// Package c09 decides C09: resuming a PBF scan at the reported byte offset
// loses no element.
package c09

import (
	"bytes"
	"context"
	"fmt"
	"io"
	"runtime"
	"strings"
	"testing"
	"time"

	"github.com/paulmach/osm"
	"github.com/paulmach/osm/osmpbf"
	"pgregory.net/rapid"

	"verif/internal/harness"
	"verif/internal/pbfgen"
	"verif/internal/pbfscan"
)

func TestMain(m *testing.M) { harness.Main(m, "C09") }

type Case struct {
	File                               *pbfgen.File
	Procs                              int
	SkipNodes, SkipWays, SkipRelations bool
	// Stop: number of objects after which an extra early-stopped scanner is
	// closed and its counters are read (-1: none).
	Stop int
	// Prefix bytes placed before the file in the reader's underlying buffer:
	// offsets are relative to where the reader started.
	ResumeProcs int
	// ResumeHeader: 0 the resumed scanners never call Header; 1 they call it
	// before the first Scan; 2 after the first object (a resumed stream has no
	// header block; asking for it must not disturb the scan).
	ResumeHeader int
	// ResumeWhileOpen: additionally resume at a block offset while the first
	// scanner is still open and blocked inside that block.
	ResumeWhileOpen bool
	// ResumeReader: how the resumed scanners get their input: 0 a reader over
	// the bytes from the offset on; 1 a bytes.Reader over the whole file, seeked
	// to the offset (as a caller holding the file does); 2 such a reader whose
	// Seek is hidden (io.Reader only). The counters are relative to where the
	// scanner started reading in every case.
	ResumeReader int
}

func skipped(c *Case, o osm.Object) bool {
	switch o.(type) {
	case *osm.Node:
		return c.SkipNodes
	case *osm.Way:
		return c.SkipWays
	case *osm.Relation:
		return c.SkipRelations
	}
	return true
}

func newScanner(c *Case, data []byte, procs int) *osmpbf.Scanner {
	s := osmpbf.New(context.Background(), bytes.NewReader(data), procs)
	s.SkipNodes, s.SkipWays, s.SkipRelations = c.SkipNodes, c.SkipWays, c.SkipRelations
	return s
}

// check runs the case under a watchdog: a scanner that never returns is a
// violation (elements are lost), not a harness timeout.
func check(c Case) error {
	done := make(chan error, 1)
	go func() {
		defer func() {
			if r := recover(); r != nil {
				done <- harness.Failf("C09/panic", "panic: %v", r)
			}
		}()
		done <- run(c)
	}()
	select {
	case err := <-done:
		return err
	case <-time.After(30 * time.Second):
		buf := make([]byte, 1<<20)
		n := runtime.Stack(buf, true)
		var blocked []string
		for _, g := range strings.Split(string(buf[:n]), "\n\n") {
			if strings.Contains(g, "github.com/paulmach/osm/osmpbf.") {
				blocked = append(blocked, g)
			}
		}
		if len(blocked) == 0 {
			panic("harness: C09 case exceeded 30s without any osmpbf goroutine")
		}
		d := strings.Join(blocked, "\n\n")
		if len(d) > 4000 {
			d = d[:4000]
		}
		return harness.Failf("C09/hang", "scan or resumed scan did not finish within 30s (procs=%d, resume procs=%d, %d blocks); goroutines in osmpbf frames:\n%s", c.Procs, c.ResumeProcs, len(c.File.Blocks), d)
	}
}

func run(c Case) error {
	enc := c.File.Encode()
	all, blockOfAll := c.File.Expected()
	var want []osm.Object
	var blockOf []int
	for i, o := range all {
		if !skipped(&c, o) {
			want = append(want, o)
			blockOf = append(blockOf, blockOfAll[i])
		}
	}
	off := func(b int) int64 { return int64(enc.Blocks[b].Start) }
	prevOff := func(b int) int64 {
		if b == 0 {
			return 0
		}
		return off(b - 1)
	}

	s := newScanner(&c, enc.Data, c.Procs)
	if f, p := s.FullyScannedBytes(), s.PreviousFullyScannedBytes(); f != 0 || p != 0 {
		s.Close()
		return harness.Failf("C09/initial-offsets", "before the first Scan the counters are %d/%d", f, p)
	}
	var got []osm.Object
	for s.Scan() {
		i := len(got)
		got = append(got, s.Object())
		if i >= len(want) {
			continue
		}
		b := blockOf[i]
		if f := s.FullyScannedBytes(); f != off(b) {
			s.Close()
			return harness.Failf("C09/fully-scanned-bytes", "after object %d (block %d at offset %d) FullyScannedBytes = %d", i, b, off(b), f)
		}
		if p := s.PreviousFullyScannedBytes(); p != prevOff(b) {
			s.Close()
			return harness.Failf("C09/previous-fully-scanned-bytes", "after object %d (block %d; previous block at %d) PreviousFullyScannedBytes = %d", i, b, prevOff(b), p)
		}
	}
	err := s.Err()
	// the counters keep describing the last returned object after the Scan that
	// reported the end of the input (a caller reads them after its scan loop)
	if n := len(got); err == nil && n > 0 && n <= len(want) {
		lb := blockOf[n-1]
		// (blocks without returned objects may follow the last object: the
		// counters may have moved on to them, but never backwards)
		last := off(len(enc.Blocks) - 1)
		if f, p := s.FullyScannedBytes(), s.PreviousFullyScannedBytes(); f < off(lb) || f > last || p < prevOff(lb) || p > f {
			s.Close()
			return harness.Failf("C09/offsets-after-end", "after the Scan that returned false at the end of the input: FullyScannedBytes/Previous = %d/%d; after the last object (block %d) they were %d/%d and the last block starts at %d", f, p, lb, off(lb), prevOff(lb), last)
		}
	}
	s.Close()
	if err != nil {
		return harness.Failf("C09/scan-error", "scan failed: %v", err)
	}
	if d := pbfgen.DiffSeq(got, want); d != "" {
		return harness.Failf("C09/first-pass", "%s", d)
	}

	// resume at every block offset that can be reported
	firstOfBlock := func(b int) int { // index into want of the first object at or after block b
		for i := range want {
			if blockOf[i] >= b {
				return i
			}
		}
		return len(want)
	}
	for b := range enc.Blocks {
		r := newScanner(&c, enc.Data[off(b):], c.ResumeProcs)
		if c.ResumeReader > 0 {
			rd := bytes.NewReader(enc.Data)
			rd.Seek(off(b), io.SeekStart)
			var in io.Reader = rd
			if c.ResumeReader == 2 {
				in = struct{ io.Reader }{rd}
			}
			r = osmpbf.New(context.Background(), in, c.ResumeProcs)
			r.SkipNodes, r.SkipWays, r.SkipRelations = c.SkipNodes, c.SkipWays, c.SkipRelations
		}
		var rest []osm.Object
		k := firstOfBlock(b)
		j := k
		if c.ResumeHeader == 1 {
			r.Header()
		}
		for r.Scan() {
			rest = append(rest, r.Object())
			if c.ResumeHeader == 2 && len(rest) == 1 {
				r.Header()
			}
			if j < len(want) {
				if f := r.FullyScannedBytes() + off(b); f != off(blockOf[j]) {
					r.Close()
					return harness.Failf("C09/resumed-offsets", "resumed at block %d: after object %d FullyScannedBytes+start = %d, want %d", b, j, f, off(blockOf[j]))
				}
			}
			j++
		}
		err := r.Err()
		r.Close()
		if err != nil {
			return harness.Failf("C09/resume-error", "scanner resumed at offset %d (block %d) failed: %v", off(b), b, err)
		}
		if d := pbfgen.DiffSeq(rest, want[k:]); d != "" {
			return harness.Failf("C09/resume-loses-elements", "scanner resumed at offset %d (block %d of %d): %s", off(b), b, len(enc.Blocks), d)
		}
	}

	// resuming while the first scanner is still open and waiting for input: the
	// first scanner stalls one byte short of the end of block StallBlock, a
	// resumed scanner reads from that block's offset to the end, then the first
	// one finishes
	if c.ResumeWhileOpen && len(enc.Blocks) > 0 {
		b := c.Stop
		if b < 0 {
			b = 0
		}
		b %= len(enc.Blocks)
		k := len(all) // index of the first element at or after block b (the scenario runs without skip flags)
		for i := range all {
			if blockOfAll[i] >= b {
				k = i
				break
			}
		}
		d, hang := pbfscan.Two(enc.Data, all, c.Procs, enc.Blocks[b].End-1, enc.Data[off(b):], all[k:], c.ResumeProcs, c.ResumeHeader == 1)
		if hang {
			return harness.Failf("C09/hang", "%s", d)
		}
		if d != "" {
			return harness.Failf("C09/resume-while-open", "resumed at block %d while the first scanner was still open: %s", b, d)
		}
	}

	// an actual early stop: the counters read after Close are those of the
	// last returned object
	if c.Stop >= 0 && c.Stop <= len(want) {
		e := newScanner(&c, enc.Data, c.Procs)
		n := 0
		for n < c.Stop && e.Scan() {
			n++
		}
		f, p := e.FullyScannedBytes(), e.PreviousFullyScannedBytes()
		e.Close()
		f2, p2 := e.FullyScannedBytes(), e.PreviousFullyScannedBytes()
		if n == c.Stop && n > 0 {
			b := blockOf[n-1]
			if f != off(b) || p != prevOff(b) || f2 != f || p2 != p {
				return harness.Failf("C09/early-stop-offsets", "stopped after %d objects (block %d at %d, previous %d): counters %d/%d, after Close %d/%d", n, b, off(b), prevOff(b), f, p, f2, p2)
			}
		}
	}
	return nil
}

func classify(c Case) (bool, []string) {
	var cl []string
	empty := false
	for _, b := range c.File.Blocks {
		n := 0
		for _, o := range b.Expected() {
			if !skipped(&c, o) {
				n++
			}
		}
		if n == 0 {
			empty = true
		}
	}
	if empty {
		cl = append(cl, "has-empty-block")
	}
	if len(c.File.Blocks) >= 2 {
		cl = append(cl, "multi-block")
	}
	if c.Procs > 1 {
		cl = append(cl, "procs>1")
	}
	return len(c.File.Blocks) >= 2, cl
}

func TestResume(t *testing.T) {
	harness.Run(t, harness.Spec[Case]{
		Name: "resume", N: 500,
		Rule: "resumed scanners read a buffer cut at the offset, or (half of the cases) a seekable reader over the whole file positioned at the offset, or that reader with its Seek hidden: counters stay relative to the start; generated PBF files (1..7 blocks; byte offsets known to the encoder) x skip flags (which create empty blocks) x decoder counts (resumed scanners with 1, 2, 4, 11 or 16 decoders, i.e. also with unbuffered per-decoder queues; half of them call Header() before the first Scan or after the first object); every stop position is evaluated in one pass (counters read after every Scan) and a second scanner is started at EVERY block offset; an extra early-stopped scanner is closed after a drawn number of objects; oracle = encoder's block offsets and the model's remaining objects; non-trivial = at least two data blocks (has-empty-block counted separately)",
		Gen: func(t *rapid.T) Case {
			return Case{
				File:            pbfgen.GenFile(t, pbfgen.Opt{MinBlocks: 1, MaxBlocks: 7}),
				Procs:           rapid.SampledFrom([]int{1, 2, 3, 5, 16}).Draw(t, "procs"),
				ResumeProcs:     rapid.SampledFrom([]int{1, 2, 4, 11, 16}).Draw(t, "rprocs"),
				ResumeHeader:    rapid.SampledFrom([]int{0, 0, 1, 2}).Draw(t, "rheader"),
				ResumeWhileOpen: rapid.IntRange(0, 3).Draw(t, "whileOpen") == 0,
				ResumeReader:    rapid.SampledFrom([]int{0, 1, 1, 2}).Draw(t, "rreader"),
				SkipNodes:       rapid.IntRange(0, 2).Draw(t, "sn") == 0,
				SkipWays:        rapid.IntRange(0, 2).Draw(t, "sw") == 0,
				SkipRelations:   rapid.IntRange(0, 2).Draw(t, "sr") == 0,
				Stop:            rapid.IntRange(-1, 30).Draw(t, "stop"),
			}
		},
		Check:    check,
		Classify: classify,
		Describe: func(c Case) any {
			m := c.File.Summary()
			delete(m, "header")
			m["procs"] = c.Procs
			m["skip"] = []bool{c.SkipNodes, c.SkipWays, c.SkipRelations}
			m["stop"] = c.Stop
			m["resume_procs"] = c.ResumeProcs
			m["resume_header"] = c.ResumeHeader
			m["resume_reader"] = c.ResumeReader
			enc := c.File.Encode()
			var offs []int
			for _, f := range enc.Blocks {
				offs = append(offs, f.Start)
			}
			m["block_offsets"] = fmt.Sprint(offs)
			return m
		},
		Floors:   map[string]float64{"has-empty-block": 0.3, "multi-block": 0.5},
		Inflight: true,
	})
}
