// Package c18 decides C18: area classification of ways follows the published
// Overpass-turbo polygon-features rules.
package c18

import (
	"fmt"
	"sort"
	"testing"

	"github.com/paulmach/osm"
	"pgregory.net/rapid"

	"verif/internal/harness"
)

func TestMain(m *testing.M) { harness.Main(m, "C18") }

// The harness's own transcription of
// https://wiki.openstreetmap.org/wiki/Overpass_turbo/Polygon_Features
// (the "area" key of the published list is the area tag rule itself).
type rule struct {
	key    string
	kind   string // all, whitelist, blacklist
	values []string
}

var rules = []rule{
	{"building", "all", nil},
	{"highway", "whitelist", []string{"services", "rest_area", "escape", "elevator"}},
	{"natural", "blacklist", []string{"coastline", "cliff", "ridge", "arete", "tree_row"}},
	{"landuse", "all", nil},
	{"waterway", "whitelist", []string{"riverbank", "dock", "boatyard", "dam"}},
	{"amenity", "all", nil},
	{"leisure", "all", nil},
	{"barrier", "whitelist", []string{"city_wall", "ditch", "hedge", "retaining_wall", "wall", "spikes"}},
	{"railway", "whitelist", []string{"station", "turntable", "roundhouse", "platform"}},
	{"boundary", "all", nil},
	{"man_made", "blacklist", []string{"cutline", "embankment", "pipeline"}},
	{"power", "whitelist", []string{"plant", "substation", "generator", "transformer"}},
	{"place", "all", nil},
	{"shop", "all", nil},
	{"aeroway", "blacklist", []string{"taxiway"}},
	{"tourism", "all", nil},
	{"historic", "all", nil},
	{"public_transport", "all", nil},
	{"office", "all", nil},
	{"building:part", "all", nil},
	{"military", "all", nil},
	{"ruins", "all", nil},
	{"area:highway", "all", nil},
	{"craft", "all", nil},
	{"golf", "all", nil},
	{"indoor", "all", nil},
}

func in(vs []string, v string) bool {
	for _, x := range vs {
		if x == v {
			return true
		}
	}
	return false
}

// refTags evaluates the rule text on the tag map.
func refTags(tags map[string]string) bool {
	if a, ok := tags["area"]; ok && a != "" {
		return a != "no"
	}
	for _, r := range rules {
		v, ok := tags[r.key]
		if !ok || v == "" || v == "no" {
			continue
		}
		switch r.kind {
		case "all":
			return true
		case "whitelist":
			if in(r.values, v) {
				return true
			}
		case "blacklist":
			if !in(r.values, v) {
				return true
			}
		}
	}
	return false
}

type T struct{ K, V string }

type Case struct {
	Refs []int64
	Tags []T
	// Filler unrelated tags (fill00=x, ...) are spread over the tag list.
	Filler int
	// Annot: annotations on the way nodes (none of which the rules mention):
	// 0 none; 1 every node annotated from its position (a closing node repeats
	// the id but not the annotation of the first); 2 only the first node
	// annotated; 3 all annotated, consistently per id.
	Annot int
	// Tags2 (optional): after the first answer the same Way value gets this
	// tag list and is asked again.
	Tags2 []T
	// MarkUninteresting: while the way is classified, every key of its tags is
	// listed in the package's exported osm.UninterestingTags map (which only
	// steers "interesting tag" decisions, never this one).
	MarkUninteresting bool
}

func (c Case) way() *osm.Way {
	w := &osm.Way{ID: 1, Version: 1, Visible: true}
	for i, r := range c.Refs {
		wn := osm.WayNode{ID: osm.NodeID(r)}
		switch {
		case c.Annot == 1, c.Annot == 2 && i == 0:
			wn.Version, wn.ChangesetID, wn.Lat, wn.Lon = i+1, osm.ChangesetID(10+i), float64(i)+0.5, float64(i)+1.5
		case c.Annot == 3:
			wn.Version, wn.ChangesetID, wn.Lat, wn.Lon = int(r), osm.ChangesetID(r), float64(r)+0.5, float64(r)+1.5
		}
		w.Nodes = append(w.Nodes, wn)
	}
	for _, t := range c.Tags {
		w.Tags = append(w.Tags, osm.Tag{Key: t.K, Value: t.V})
	}
	for i := 0; i < c.Filler; i++ {
		// spread deterministically: alternately in front and at the end
		ft := osm.Tag{Key: fmt.Sprintf("fill%02d", i), Value: "x"}
		if i%2 == 0 {
			w.Tags = append(osm.Tags{ft}, w.Tags...)
		} else {
			w.Tags = append(w.Tags, ft)
		}
	}
	return w
}

func ref(c Case) bool {
	if len(c.Refs) <= 3 || c.Refs[0] != c.Refs[len(c.Refs)-1] {
		return false
	}
	m := map[string]string{}
	for _, t := range c.Tags {
		m[t.K] = t.V
	}
	return refTags(m)
}

func checkWay(c Case) error {
	if c.MarkUninteresting {
		var added []string
		for _, t := range append(append([]T{}, c.Tags...), c.Tags2...) {
			if !osm.UninterestingTags[t.K] {
				osm.UninterestingTags[t.K] = true
				added = append(added, t.K)
			}
		}
		defer func() {
			for _, k := range added {
				delete(osm.UninterestingTags, k)
			}
		}()
	}
	w := c.way()
	got, want := w.Polygon(), ref(c)
	if got != want {
		return harness.Failf("C18/way-classification", "Way.Polygon() = %v, the published rules give %v for refs %v tags %v (keys listed as uninteresting: %v)", got, want, c.Refs, c.Tags, c.MarkUninteresting)
	}
	if c.Tags2 != nil {
		// the same value, and a struct copy of it, with other tags
		c2 := c
		c2.Tags = c.Tags2
		w2 := c2.way()
		cp := *w
		cp.Tags = w2.Tags
		w.Tags = w2.Tags
		if got, want := w.Polygon(), ref(c2); got != want {
			return harness.Failf("C18/way-classification", "after replacing the tags of a way that was already classified (%v => %v): Polygon() = %v, the rules give %v", c.Tags, c.Tags2, got, want)
		}
		if got, want := cp.Polygon(), ref(c2); got != want {
			return harness.Failf("C18/way-classification", "struct copy of a classified way with other tags (%v => %v): Polygon() = %v, the rules give %v", c.Tags, c.Tags2, got, want)
		}
	}
	return nil
}

var closed4 = []int64{1, 2, 3, 1}
var nodeShapes = [][]int64{nil, {1}, {1, 1}, {1, 2, 1}, {1, 2, 3, 1}, {1, 2, 3, 4, 1}, {1, 2, 3, 4}, {1, 2, 3, 4, 5}, {1, 1, 1, 1}, {1, 2, 1, 2},
	// open ways whose end ids agree in their low 32/40/48/56 bits or in magnitude (ids are int64 and compared in full), closed ones with such ids
	{1, 2, 3, 1 + 1<<48}, {1, 2, 3, 1 + 1<<40}, {1, 2, 3, 1 + 1<<32}, {5, 6, 7, 8, 5 + 1<<56}, {-7, 2, 3, -7 + 1<<62}, {7, 2, 3, 4, -7},
	{1 + 1<<48, 2, 3, 1 + 1<<48}, {-7, 2, 3, 4, -7}}

func valueClasses(r rule) []string {
	vs := []string{"", "no", "yes", "unlisted_value", "No", "no ", "1"}
	for _, v := range r.values {
		vs = append(vs, v, v+"a", v[:len(v)-1], " "+v)
	}
	// neighbours in sort order of the listed values
	s := append([]string(nil), r.values...)
	sort.Strings(s)
	for _, v := range s {
		vs = append(vs, v+"\x00", string(append([]byte(v[:len(v)-1]), v[len(v)-1]-1)))
	}
	return vs
}

func deciding(r rule) (yes, no string) {
	switch r.kind {
	case "all":
		return "yes", "no"
	case "whitelist":
		return r.values[len(r.values)-1], "unlisted_value"
	default:
		return "unlisted_value", r.values[0]
	}
}

func TestExhaustive(t *testing.T) {
	harness.Enumerate(t, "rule-table",
		"exhaustive over the harness's own transcription of the published table (26 keys): every key x every value class (each listed value, value+suffix, value minus last char, sort-order neighbours, unlisted, empty, no, No, yes) x area in {absent, empty, no, yes, other} x every node-list shape (open, closed with 3/4/5 refs, degenerate, open with end ids equal modulo 2^32/2^40/2^48/2^56 or in magnitude, closed with ids beyond 2^48 and negative); all ordered pairs of rule keys with deciding / non-deciding values in both tag orders; relations over type values; oracle = direct evaluation of the rule text on the tag map; non-trivial = closed way with more than 3 refs whose answer is decided by a listed key (not by the area tag)",
		true, func(e *harness.Enum) {
			areas := []*string{nil, sp(""), sp("no"), sp("yes"), sp("other")}
			run := func(c Case, nt bool, class string) bool {
				e.Case(nt, fmt.Sprint(c), class)
				if err := checkWay(c); err != nil {
					f := err.(*harness.Failure)
					e.Fail(f.Sig, c, "%s", f.Msg)
					return false
				}
				return true
			}
			cells := 0
			for _, r := range rules {
				for _, v := range valueClasses(r) {
					cells++
					for _, a := range areas {
						for _, shape := range nodeShapes {
							for order := 0; order < 2; order++ {
								tags := []T{{r.key, v}}
								if a != nil {
									if order == 0 {
										tags = append(tags, T{"area", *a})
									} else {
										tags = append([]T{{"area", *a}}, tags...)
									}
								} else if order == 1 {
									continue
								}
								nt := len(shape) > 3 && shape[0] == shape[len(shape)-1] && (a == nil || *a == "")
								if !run(Case{Refs: shape, Tags: tags}, nt, "single-key") {
									return
								}
							}
						}
					}
				}
			}
			// pairs of rule keys
			for i, r1 := range rules {
				for j, r2 := range rules {
					if i == j {
						continue
					}
					y1, n1 := deciding(r1)
					y2, n2 := deciding(r2)
					for _, vv := range [][2]string{{y1, y2}, {y1, n2}, {n1, y2}, {n1, n2}} {
						for _, a := range []*string{nil, sp("no")} {
							tags := []T{{r1.key, vv[0]}, {"name", "x"}, {r2.key, vv[1]}, {"source", "survey"}}
							if a != nil {
								tags = append(tags, T{"area", *a})
							}
							if !run(Case{Refs: closed4, Tags: tags}, a == nil, "key-pair") {
								return
							}
						}
					}
				}
			}
			// no tags / unrelated tags only
			for _, shape := range nodeShapes {
				if !run(Case{Refs: shape}, false, "no-tags") || !run(Case{Refs: shape, Tags: []T{{"name", "x"}, {"created_by", "y"}, {"areas", "yes"}, {"Area", "yes"}, {"buildings", "yes"}}}, false, "unrelated-tags") {
					return
				}
			}
			// relations
			for _, ty := range []*string{nil, sp(""), sp("multipolygon"), sp("boundary"), sp("route"), sp("Multipolygon"), sp("multipolygon "), sp("restriction"), sp("no"), sp("yes")} {
				for _, extra := range [][]T{nil, {{"building", "yes"}}, {{"area", "yes"}}, {{"area", "no"}}, {{"boundary", "administrative"}}} {
					for order := 0; order < 2; order++ {
						r := &osm.Relation{ID: 1}
						var tags []T
						if ty != nil {
							tags = append(tags, T{"type", *ty})
						}
						if order == 0 {
							tags = append(tags, extra...)
						} else {
							tags = append(append([]T{}, extra...), tags...)
						}
						for _, t := range tags {
							r.Tags = append(r.Tags, osm.Tag{Key: t.K, Value: t.V})
						}
						want := ty != nil && (*ty == "multipolygon" || *ty == "boundary")
						e.Case(want, fmt.Sprint("rel", tags), "relation")
						if got := r.Polygon(); got != want {
							e.Fail("C18/relation-classification", tags, "Relation.Polygon() = %v want %v for tags %v", got, want, tags)
							return
						}
					}
				}
			}
			e.Sample(map[string]any{"keys": len(rules), "key_value_cells": cells, "example": Case{Refs: closed4, Tags: []T{{"natural", "tree_row"}, {"place", "island"}}}})
		})
}

func sp(s string) *string { return &s }

func TestRandomTagSets(t *testing.T) {
	var allKeys []string
	for _, r := range rules {
		allKeys = append(allKeys, r.key)
	}
	allKeys = append(allKeys, "area", "name", "source", "created_by", "note", "type")
	harness.Run(t, harness.Spec[Case]{
		Name: "random-tag-sets", N: 20000,
		Rule: "random tag sets (unique keys) of 0..7 tags over the rule keys, area and unrelated keys with values from listed/unlisted/no/empty, in random order, a quarter padded with 1..60 unrelated tags (around the number of rules), on closed and open node lists whose way nodes carry no, partial, per-position or per-id annotations; a third of the ways get a second tag list after their first answer (same value and a struct copy asked again), a quarter are classified while all their keys are listed in osm.UninterestingTags; oracle = rule text on the tag map and invariance of the answer under a drawn permutation of the tags; non-trivial = closed way with >3 refs and at least two rule keys present",
		Gen: func(t *rapid.T) Case {
			c := Case{Refs: rapid.SampledFrom(nodeShapes).Draw(t, "shape")}
			if rapid.IntRange(0, 3).Draw(t, "closed") != 0 {
				c.Refs = rapid.SampledFrom([][]int64{{1, 2, 3, 1}, {5, 6, 7, 8, 5}, {1, 2, 3, 4, 5, 6, 1}}).Draw(t, "closedShape")
			}
			drawTags := func(l string) []T {
				var out []T
				keys := rapid.SliceOfNDistinct(rapid.SampledFrom(allKeys), 0, 7, func(s string) string { return s }).Draw(t, l+"keys")
				for _, k := range keys {
					var pool []string
					for _, r := range rules {
						if r.key == k {
							pool = append(pool, r.values...)
						}
					}
					pool = append(pool, "yes", "no", "", "unlisted_value", "other")
					out = append(out, T{k, rapid.SampledFrom(pool).Draw(t, l+"v")})
				}
				return out
			}
			c.Tags = drawTags("")
			if rapid.IntRange(0, 2).Draw(t, "second") == 0 {
				c.Tags2 = drawTags("2")
				if c.Tags2 == nil {
					c.Tags2 = []T{}
				}
			}
			c.MarkUninteresting = rapid.IntRange(0, 3).Draw(t, "markUninteresting") == 0
			if rapid.IntRange(0, 3).Draw(t, "filler?") == 0 {
				c.Filler = rapid.SampledFrom([]int{1, 5, 15, 19, 20, 24, 25, 26, 27, 30, 60}).Draw(t, "filler")
			}
			c.Annot = rapid.SampledFrom([]int{0, 0, 1, 2, 3}).Draw(t, "annot")
			return c
		},
		Check: func(c Case) error {
			if err := checkWay(c); err != nil {
				return err
			}
			// permutation invariance
			p := Case{Refs: c.Refs, Filler: c.Filler, Annot: c.Annot, MarkUninteresting: c.MarkUninteresting}
			for i := len(c.Tags) - 1; i >= 0; i-- {
				p.Tags = append(p.Tags, c.Tags[i])
			}
			if c.way().Polygon() != p.way().Polygon() {
				return harness.Failf("C18/order-dependence", "answer changes when the tags are reversed: %v", c.Tags)
			}
			return nil
		},
		Classify: func(c Case) (bool, []string) {
			n := 0
			for _, t := range c.Tags {
				for _, r := range rules {
					if r.key == t.K {
						n++
					}
				}
			}
			return len(c.Refs) > 3 && c.Refs[0] == c.Refs[len(c.Refs)-1] && n >= 2, nil
		},
	})
}
