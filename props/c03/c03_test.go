// Package c03 decides C03: OSM XML decoding is faithful and the streaming
// scanner yields the same objects, in document order, as decoding the whole
// document at once.
package c03

import (
	"context"
	"encoding/xml"
	"fmt"
	"strings"
	"testing"

	"github.com/paulmach/osm"
	"github.com/paulmach/osm/osmxml"
	"pgregory.net/rapid"

	"verif/internal/harness"
	"verif/internal/osmdoc"
	"verif/internal/pbfgen"
)

func TestMain(m *testing.M) { harness.Main(m, "C03") }

var cmp = osmdoc.Opt{}

func scan(text string) ([]osm.Object, error) {
	s := osmxml.New(context.Background(), strings.NewReader(text))
	defer s.Close()
	var out []osm.Object
	for s.Scan() {
		out = append(out, s.Object())
	}
	return out, s.Err()
}

func scanDiff(text string, want []osmdoc.Item) string {
	got, err := scan(text)
	if err != nil {
		return fmt.Sprintf("scanner error: %v", err)
	}
	if len(got) != len(want) {
		return fmt.Sprintf("scanner yields %d objects, the document holds %d", len(got), len(want))
	}
	for i := range want {
		if d := cmp.ObjectDiff(got[i], want[i]); d != "" {
			return fmt.Sprintf("scanner object %d (%s): %s", i, want[i].Kind(), d)
		}
	}
	// scanned objects are values of their own: appending to the tag, node or
	// member list of one changes no other
	if d := pbfgen.AppendIndependence(got); d != "" {
		return "scanner: " + d
	}
	return ""
}

func rootDiff(what string, gv, gg, gc, ga, gl string, wv, wg, wc, wa, wl string) string {
	if gv != wv || gg != wg || gc != wc || ga != wa || gl != wl {
		return fmt.Sprintf("%s root attributes: got %q %q %q %q %q want %q %q %q %q %q", what, gv, gg, gc, ga, gl, wv, wg, wc, wa, wl)
	}
	return ""
}

func classes(l osmdoc.Layout, items []osmdoc.Item) (bool, []string) {
	kinds := map[string]bool{}
	for _, it := range items {
		kinds[it.Kind()] = true
	}
	var cl []string
	if l.CharRefs {
		cl = append(cl, "char-refs-cdata")
	}
	if l.UnknownAttrs || l.UnknownElems {
		cl = append(cl, "unknown-attrs-or-elements")
	}
	if l.ShuffleAttrs {
		cl = append(cl, "shuffled-attributes")
	}
	return len(kinds) >= 2 && (l.CharRefs || l.UnknownAttrs || l.UnknownElems || l.ShuffleAttrs), cl
}

// ---------------------------------------------------------------- <osm>

type OSMCase struct {
	Doc    *osmdoc.Doc
	Layout osmdoc.Layout
}

func checkOSM(c OSMCase) error {
	text := osmdoc.RenderOSM(c.Doc, c.Layout)
	var o osm.OSM
	if err := xml.Unmarshal([]byte(text), &o); err != nil {
		return harness.Failf("C03/osm-decode-error", "well-formed document rejected: %v\n%s", err, text)
	}
	if d := rootDiff("osm", o.Version, o.Generator, o.Copyright, o.Attribution, o.License, c.Doc.Version, c.Doc.Generator, c.Doc.Copyright, c.Doc.Attribution, c.Doc.License); d != "" {
		return harness.Failf("C03/osm-root", "%s", d)
	}
	if d := cmp.OSMDiff(&o, c.Doc.Items); d != "" {
		return harness.Failf("C03/osm-whole-document", "%s\n%s", d, text)
	}
	if d := scanDiff(text, c.Doc.Items); d != "" {
		return harness.Failf("C03/osm-scanner", "%s\n%s", d, text)
	}
	return nil
}

func TestOSMDocuments(t *testing.T) {
	harness.Run(t, harness.Spec[OSMCase]{
		Name: "osm-document", N: 3000,
		Rule: "<osm> documents rendered by an independent XML writer from a model: 0..7 top-level items in document order over bounds, node, way, relation, changeset (with discussion), note (with comments), user, every optional attribute/child independently present, XML-representable Unicode text; layout drawn by rapid: attribute order, child interleaving, quote style, self-closing vs open/close (with whitespace or a comment between the tags of an empty element), whitespace and comments, XML declaration, entity vs numeric character references vs CDATA, unknown attributes, unknown child and top-level elements (never containing OSM element names; some named like HTML void elements - meta, link, br, img, input, col - written as ordinary start/end pairs), remark-style notes without id, status, dates or comments, float trailing zeros, time zone variants, 1/0 booleans; oracle = whole-document decode equals the model per kind in order, streaming scanner yields the model's items in document order; non-trivial = >= 2 element kinds and a layout with character references, unknown parts or shuffled attributes",
		Gen: func(t *rapid.T) OSMCase {
			return OSMCase{Doc: osmdoc.GenDoc(t, osmdoc.GenOpt{}, "nwrcNub"), Layout: osmdoc.GenLayout(t)}
		},
		Check:    checkOSM,
		Classify: func(c OSMCase) (bool, []string) { return classes(c.Layout, c.Doc.Items) },
		Describe: func(c OSMCase) any {
			return map[string]any{"layout": c.Layout, "xml": osmdoc.RenderOSM(c.Doc, c.Layout)}
		},
	})
}

// ---------------------------------------------------------------- <osmChange>

type ChangeCase struct {
	Doc    *osmdoc.ChangeDoc
	Layout osmdoc.Layout
}

func checkChange(c ChangeCase) error {
	text := osmdoc.RenderChange(c.Doc, c.Layout)
	var ch osm.Change
	if err := xml.Unmarshal([]byte(text), &ch); err != nil {
		return harness.Failf("C03/change-decode-error", "well-formed osmChange rejected: %v\n%s", err, text)
	}
	if d := rootDiff("osmChange", ch.Version, ch.Generator, ch.Copyright, ch.Attribution, ch.License, c.Doc.Version, c.Doc.Generator, c.Doc.Copyright, c.Doc.Attribution, c.Doc.License); d != "" {
		return harness.Failf("C03/change-root", "%s", d)
	}
	by := map[string][]osmdoc.Item{}
	present := map[string]bool{}
	var all []osmdoc.Item
	for _, b := range c.Doc.Blocks {
		by[b.Action] = append(by[b.Action], b.Items...)
		present[b.Action] = true
		all = append(all, b.Items...)
	}
	for _, blk := range []struct {
		name string
		got  *osm.OSM
	}{{"create", ch.Create}, {"modify", ch.Modify}, {"delete", ch.Delete}} {
		if !present[blk.name] && blk.got != nil {
			return harness.Failf("C03/change-block", "block %s is absent from the document but decoded as %+v", blk.name, blk.got)
		}
		if d := cmp.OSMDiff(blk.got, by[blk.name]); d != "" {
			return harness.Failf("C03/change-whole-document", "%s blocks (repeated blocks concatenate): %s\n%s", blk.name, d, text)
		}
	}
	if d := scanDiff(text, all); d != "" {
		return harness.Failf("C03/change-scanner", "%s\n%s", d, text)
	}
	return nil
}

func TestChangeDocuments(t *testing.T) {
	harness.Run(t, harness.Spec[ChangeCase]{
		Name: "osmchange-document", N: 2500,
		Rule: "osmChange documents with 0..6 create/modify/delete blocks in any interleaving and repetition (at most one bounds per action kind), same writer and layouts; oracle = Create/Modify/Delete equal the concatenation of their blocks, scanner yields all elements in document order; non-trivial = an action kind repeated or interleaved and >= 2 element kinds",
		Gen: func(t *rapid.T) ChangeCase {
			return ChangeCase{Doc: osmdoc.GenChange(t, osmdoc.GenOpt{}), Layout: osmdoc.GenLayout(t)}
		},
		Check: checkChange,
		Classify: func(c ChangeCase) (bool, []string) {
			seen := map[string]int{}
			var all []osmdoc.Item
			repeated := false
			for _, b := range c.Doc.Blocks {
				seen[b.Action]++
				if seen[b.Action] > 1 {
					repeated = true
				}
				all = append(all, b.Items...)
			}
			_, cl := classes(c.Layout, all)
			if repeated {
				cl = append(cl, "repeated-action-block")
			}
			kinds := map[string]bool{}
			for _, it := range all {
				kinds[it.Kind()] = true
			}
			return repeated && len(kinds) >= 2, cl
		},
		Describe: func(c ChangeCase) any {
			return map[string]any{"layout": c.Layout, "xml": osmdoc.RenderChange(c.Doc, c.Layout)}
		},
		Floors: map[string]float64{"repeated-action-block": 0.3},
	})
}

// ---------------------------------------------------------------- augmented diff

type DiffCase struct {
	Doc    *osmdoc.DiffDoc
	Layout osmdoc.Layout
}

func checkDiff(c DiffCase) error {
	text := osmdoc.RenderDiff(c.Doc, c.Layout)
	var df osm.Diff
	if err := xml.Unmarshal([]byte(text), &df); err != nil {
		return harness.Failf("C03/diff-decode-error", "well-formed augmented diff rejected: %v\n%s", err, text)
	}
	if len(df.Actions) != len(c.Doc.Actions) {
		return harness.Failf("C03/diff-whole-document", "%d actions decoded, document holds %d\n%s", len(df.Actions), len(c.Doc.Actions), text)
	}
	var all []osmdoc.Item
	for i, a := range c.Doc.Actions {
		g := df.Actions[i]
		if string(g.Type) != a.Type {
			return harness.Failf("C03/diff-whole-document", "action %d type %q want %q", i, g.Type, a.Type)
		}
		if a.Elem != nil {
			if d := cmp.OSMDiff(g.OSM, []osmdoc.Item{*a.Elem}); d != "" {
				return harness.Failf("C03/diff-whole-document", "create action %d: %s\n%s", i, d, text)
			}
			if g.Old != nil || g.New != nil {
				return harness.Failf("C03/diff-whole-document", "create action %d has old/new", i)
			}
			all = append(all, *a.Elem)
			continue
		}
		if d := cmp.OSMDiff(g.Old, a.Old); d != "" {
			return harness.Failf("C03/diff-whole-document", "%s action %d old: %s\n%s", a.Type, i, d, text)
		}
		if d := cmp.OSMDiff(g.New, a.New); d != "" {
			return harness.Failf("C03/diff-whole-document", "%s action %d new: %s\n%s", a.Type, i, d, text)
		}
		all = append(all, a.Old...)
		all = append(all, a.New...)
	}
	if d := scanDiff(text, all); d != "" {
		return harness.Failf("C03/diff-scanner", "%s\n%s", d, text)
	}
	return nil
}

func TestDiffDocuments(t *testing.T) {
	harness.Run(t, harness.Spec[DiffCase]{
		Name: "augmented-diff-document", N: 2500,
		Rule: "augmented diffs <osm><action type=...>: create actions with one element, modify and delete actions with <old>/<new>, 0..5 actions, same writer and layouts; oracle = actions decode in order with their elements, scanner yields every element in document order (old before new); non-trivial = >= 2 actions of different types",
		Gen: func(t *rapid.T) DiffCase {
			return DiffCase{Doc: osmdoc.GenDiff(t, osmdoc.GenOpt{}), Layout: osmdoc.GenLayout(t)}
		},
		Check: checkDiff,
		Classify: func(c DiffCase) (bool, []string) {
			types := map[string]bool{}
			for _, a := range c.Doc.Actions {
				types[a.Type] = true
			}
			var cl []string
			for k := range map[string]bool{"create": true, "modify": true, "delete": true} {
				if types[k] {
					cl = append(cl, "action:"+k)
				}
			}
			return len(types) >= 2, cl
		},
		Describe: func(c DiffCase) any {
			return map[string]any{"layout": c.Layout, "xml": osmdoc.RenderDiff(c.Doc, c.Layout)}
		},
	})
}
