// Package c06 decides C06: truncated or damaged PBF input ends in an error
// after a correct prefix - never silent success, an invented object, a hang or
// a crash. Every scan of damaged input runs in a child process (the test
// binary re-executes itself), because decoder faults happen off the calling
// goroutine and would otherwise kill the checker.
package c06

import (
	"bufio"
	"bytes"
	"compress/zlib"
	"context"
	"crypto/sha1"
	"encoding/base64"
	"encoding/binary"
	"encoding/json"
	"errors"
	"fmt"
	"io"
	"math"
	"os"
	"os/exec"
	"runtime"
	"sort"
	"strings"
	"sync"
	"sync/atomic"
	"testing"
	"time"

	"github.com/paulmach/osm"
	"github.com/paulmach/osm/osmpbf"
	"google.golang.org/protobuf/encoding/protowire"
	"pgregory.net/rapid"

	"verif/internal/harness"
	"verif/internal/pbfgen"
)

func TestMain(m *testing.M) {
	if os.Getenv("VERIF_C06_CHILD") != "" {
		childMain()
		return
	}
	harness.Main(m, "C06")
}

// ---------------------------------------------------------------- jobs

type Job struct {
	ID          int    `json:"id"`
	File        string `json:"file"` // base64 JSON of *pbfgen.File
	Kind        string `json:"kind"` // "cut" or a damage class
	Cut         int    `json:"cut"`
	Pos         int    `json:"pos"` // block position: -1 header block, k data block
	Arg         string `json:"arg"` // damage parameter
	Procs       int    `json:"procs"`
	HeaderFirst bool   `json:"header_first"` // call Header() (ignoring its result) before the Scan loop
	ReadErr     bool   `json:"read_err"`     // cut jobs: the reader ends with a transport error instead of io.EOF
	// Watchdog seconds for this scan (0 = 25). Once a scan has hung in this
	// process (a first hang is established with the full 25 s), later scans -
	// shrinking re-runs the enumeration many times - get 8 s.
	Watchdog int `json:"watchdog"`
}

func (j *Job) watchdog() int {
	if j.Watchdog > 0 {
		return j.Watchdog
	}
	return 25
}

var seenHang int32

var errTransport = errors.New("c06: connection reset by peer")

// failingReader hands out data and then fails with err (never io.EOF).
type failingReader struct {
	data []byte
	err  error
}

func (r *failingReader) Read(p []byte) (int, error) {
	if len(r.data) == 0 {
		return 0, r.err
	}
	n := copy(p, r.data)
	r.data = r.data[n:]
	return n, nil
}

type Verdict struct {
	ID      int    `json:"id"`
	Begin   bool   `json:"begin,omitempty"`
	OK      bool   `json:"ok"`
	Skipped string `json:"skipped,omitempty"` // damage not applicable to this file
	Sig     string `json:"sig,omitempty"`
	Msg     string `json:"msg,omitempty"`
}

// ---------------------------------------------------------------- child

var fileCache = map[string]*pbfgen.File{}

func decodeFile(b64 string) *pbfgen.File {
	if f, ok := fileCache[b64]; ok {
		return f
	}
	raw, _ := base64.StdEncoding.DecodeString(b64)
	f := &pbfgen.File{}
	if err := json.Unmarshal(raw, f); err != nil {
		panic(err)
	}
	if len(fileCache) > 4 {
		fileCache = map[string]*pbfgen.File{}
	}
	fileCache[b64] = f
	return f
}

func childMain() {
	in := bufio.NewReaderSize(os.Stdin, 1<<20)
	out := json.NewEncoder(os.Stdout)
	for {
		line, err := in.ReadBytes('\n')
		if len(line) > 0 {
			var j Job
			if json.Unmarshal(line, &j) != nil {
				os.Exit(4)
			}
			out.Encode(Verdict{ID: j.ID, Begin: true})
			done := make(chan Verdict, 1)
			go func() { done <- runJob(&j) }()
			select {
			case v := <-done:
				out.Encode(v)
			case <-time.After(time.Duration(j.watchdog()) * time.Second):
				buf := make([]byte, 1<<20)
				n := runtime.Stack(buf, true)
				os.Stderr.Write(buf[:n])
				out.Encode(Verdict{ID: j.ID, Sig: "C06/hang", Msg: fmt.Sprintf("scan did not finish within %ds; goroutine dump:\n", j.watchdog()) + trunc(string(buf[:n]), 6000)})
				os.Exit(3)
			}
		}
		if err != nil {
			return
		}
	}
}

func trunc(s string, n int) string {
	if len(s) > n {
		return s[:n] + "…"
	}
	return s
}

func scan(data []byte, procs int, headerFirst ...bool) ([]osm.Object, error) {
	var rd io.Reader = bytes.NewReader(data)
	if len(headerFirst) > 1 && headerFirst[1] {
		rd = &failingReader{data: data, err: errTransport}
	}
	s := osmpbf.New(context.Background(), rd, procs)
	defer s.Close()
	if len(headerFirst) > 0 && headerFirst[0] {
		s.Header() // a failed Header must not turn a later Scan into a fresh start
	}
	var got []osm.Object
	for s.Scan() {
		got = append(got, s.Object())
		if len(got) > 1000000 {
			return got, fmt.Errorf("harness: runaway scan")
		}
	}
	return got, s.Err()
}

func prefixOf(f *pbfgen.File, nblocks int) []osm.Object {
	var out []osm.Object
	for i := 0; i < nblocks && i < len(f.Blocks); i++ {
		out = append(out, f.Blocks[i].Expected()...)
	}
	return out
}

func runJob(j *Job) Verdict {
	f := decodeFile(j.File)
	v := Verdict{ID: j.ID}
	if j.Kind == "cut" {
		enc := f.Encode()
		data := enc.Data[:j.Cut]
		complete := 0
		boundary := j.Cut == 0 || (f.Header != nil && j.Cut == enc.Header.End)
		for _, fr := range enc.Blocks {
			if fr.End <= j.Cut {
				complete++
			}
			if fr.End == j.Cut {
				boundary = true
			}
		}
		got, err := scan(data, j.Procs, j.HeaderFirst, j.ReadErr)
		want := prefixOf(f, complete)
		if d := pbfgen.DiffSeq(got, want); d != "" {
			v.Sig, v.Msg = "C06/cut-wrong-prefix", fmt.Sprintf("cut at %d of %d (complete data blocks %d): %s (err=%v)", j.Cut, len(enc.Data), complete, d, err)
			return v
		}
		where := describeCut(enc, j.Cut, f.Header != nil)
		if j.ReadErr {
			// the stream did not end, it broke: an error at every offset, block
			// boundaries included
			if err == nil {
				v.Sig, v.Msg = "C06/cut-silent-success/reader-error-"+where, fmt.Sprintf("the reader failed with %q after %d of %d bytes (%s): the scan reported success with %d objects", errTransport, j.Cut, len(enc.Data), where, len(got))
				return v
			}
			v.OK = true
			return v
		}
		if boundary && err != nil {
			v.Sig, v.Msg = "C06/cut-boundary-error", fmt.Sprintf("cut at block boundary %d of %d reported %v", j.Cut, len(enc.Data), err)
			return v
		}
		if !boundary && err == nil {
			v.Sig, v.Msg = "C06/cut-silent-success/"+where, fmt.Sprintf("cut at %d of %d (%s) reported success with %d objects", j.Cut, len(enc.Data), where, len(got))
			return v
		}
		v.OK = true
		return v
	}
	data, nbefore, skip := damage(f, j)
	if skip != "" {
		v.OK, v.Skipped = true, skip
		return v
	}
	got, err := scan(data, j.Procs, j.HeaderFirst)
	want := prefixOf(f, nbefore)
	if d := pbfgen.DiffSeq(got, want); d != "" {
		v.Sig, v.Msg = "C06/damage-wrong-prefix/"+j.Kind, fmt.Sprintf("%s(%s) at position %d: %s (err=%v)", j.Kind, j.Arg, j.Pos, d, err)
		return v
	}
	if err == nil {
		v.Sig, v.Msg = "C06/damage-silent-success/"+j.Kind, fmt.Sprintf("%s(%s) at position %d: scan reported success with %d objects", j.Kind, j.Arg, j.Pos, len(got))
		return v
	}
	v.OK = true
	return v
}

func describeCut(enc *pbfgen.Encoded, cut int, hasHeader bool) string {
	frames := enc.Blocks
	if hasHeader {
		frames = append([]pbfgen.Frame{enc.Header}, frames...)
	}
	for _, fr := range frames {
		if cut > fr.Start && cut < fr.End {
			switch {
			case cut < fr.HeaderAt:
				return "inside-size-prefix"
			case cut == fr.HeaderAt:
				return "after-size-prefix"
			case cut < fr.BlobAt:
				return "inside-blob-header"
			case cut == fr.BlobAt:
				return "after-blob-header"
			default:
				return "inside-blob"
			}
		}
	}
	return "boundary"
}

// reframe encodes one file block from parts, allowing damaged framing.
func frame(typ string, blob []byte, datasize int64, prefix int64) []byte {
	var h pbfgen.W
	h.Bytes(1, []byte(typ))
	h.Varint(3, uint64(datasize))
	out := make([]byte, 4)
	if prefix < 0 {
		prefix = int64(len(h.B))
	}
	binary.BigEndian.PutUint32(out, uint32(prefix))
	out = append(out, h.B...)
	return append(out, blob...)
}

// paddedFrame writes a fileblock whose BlobHeader is well formed and exactly
// size bytes long (type, indexdata padding, datasize).
func paddedFrame(typ string, blob []byte, size int) []byte {
	for pad := size; pad >= 0; pad-- {
		var h pbfgen.W
		h.Bytes(1, []byte(typ))
		h.Bytes(2, make([]byte, pad))
		h.Varint(3, uint64(len(blob)))
		if len(h.B) == size {
			out := make([]byte, 4)
			binary.BigEndian.PutUint32(out, uint32(size))
			out = append(out, h.B...)
			return append(out, blob...)
		}
		if len(h.B) < size {
			break
		}
	}
	panic("paddedFrame: size not reachable")
}

// damage builds the damaged stream; nbefore = number of intact data blocks
// before the damage; skip != "" when the class does not apply to this file.
func damage(f *pbfgen.File, j *Job) (data []byte, nbefore int, skip string) {
	enc := f.Encode()
	pos := j.Pos
	if pos >= len(f.Blocks) {
		return nil, 0, "no such block"
	}
	var start, end int
	var payload []byte
	typ := "OSMData"
	var zl bool
	if pos < 0 {
		if f.Header == nil {
			return nil, 0, "no header"
		}
		start, end = enc.Header.Start, enc.Header.End
		payload = f.Header.Encode()
		typ = "OSMHeader"
		zl = f.Header.Zlib
		nbefore = 0
	} else {
		start, end = enc.Blocks[pos].Start, enc.Blocks[pos].End
		payload = f.Blocks[pos].Encode()
		zl = f.Blocks[pos].Zlib
		nbefore = pos
	}
	replace := func(block []byte) []byte {
		out := append([]byte{}, enc.Data[:start]...)
		out = append(out, block...)
		return append(out, enc.Data[end:]...)
	}
	blob := pbfgen.EncodeBlob(payload, pbfgen.BlobOpt{Zlib: zl})
	mutated := func(mu *pbfgen.Mutator, applied *bool) ([]byte, int, string) {
		if pos < 0 {
			return nil, 0, "data-block damage"
		}
		p := f.Blocks[pos].EncodeWith(mu)
		if !*applied {
			return nil, 0, "block has no such part"
		}
		return replace(pbfgen.FileBlock("OSMData", p, pbfgen.BlobOpt{Zlib: zl})), nbefore, ""
	}
	switch j.Kind {
	case "header-size-too-big":
		var n int64 = 64 * 1024
		if j.Arg == "max" {
			n = 0xFFFFFFFF
		}
		if j.Arg == "64k-padded" {
			// a well-formed BlobHeader of exactly 64 KiB (indexdata padding):
			// "must be less than 64 KiB" - the first size a reader has to refuse
			return replace(paddedFrame(typ, blob, 64*1024)), nbefore, ""
		}
		return replace(frame(typ, blob, int64(len(blob)), n)), nbefore, ""
	case "datasize-too-big":
		var n int64 = 32 * 1024 * 1024
		if j.Arg == "max" {
			n = 1<<31 - 1
		}
		return replace(frame(typ, blob, n, -1)), nbefore, ""
	case "datasize-negative":
		n := int64(-1)
		if j.Arg == "min" {
			n = -(1 << 31)
		}
		return replace(frame(typ, blob, n, -1)), nbefore, ""
	case "raw-size-wrong":
		var b pbfgen.W
		var zb bytes.Buffer
		zw := zlib.NewWriter(&zb)
		zw.Write(payload)
		zw.Close()
		sz := len(payload) + 1
		if j.Arg == "less" {
			sz = len(payload) - 1
			if sz < 0 {
				return nil, 0, "empty payload"
			}
		}
		if j.Arg == "field-boundary" {
			// declared size = the payload without its last top-level field: a
			// reader that treats raw_size as a cap would see a valid, shorter message
			rest, lastStart := payload, -1
			for len(rest) > 0 {
				_, _, n := protowire.ConsumeField(rest)
				if n < 0 {
					break
				}
				lastStart = len(payload) - len(rest)
				rest = rest[n:]
			}
			if lastStart <= 0 {
				return nil, 0, "payload has fewer than two fields"
			}
			sz = lastStart
		}
		b.Varint(2, uint64(sz))
		b.Bytes(3, zb.Bytes())
		return replace(pbfgen.FrameBlob(typ, b.B, nil)), nbefore, ""
	case "zlib-corrupt":
		var zb bytes.Buffer
		zw := zlib.NewWriter(&zb)
		zw.Write(payload)
		zw.Close()
		z := zb.Bytes()
		switch {
		case j.Arg == "trailer":
			// known finding (see known_findings.json): only run as a witness
			z = z[:len(z)-1]
		case j.Arg == "truncate-half":
			if len(z) < 16 {
				return nil, 0, "stream too short to cut in the middle of the deflate data"
			}
			z = z[:len(z)/2]
		case j.Arg == "adler":
			z[len(z)-1] ^= 0x55
		default:
			var k int
			fmt.Sscanf(j.Arg, "flip%d", &k)
			i := (len(z) - 1) * k / 8
			z[i] ^= 1 << uint(k%8)
		}
		// only a stream that the reference inflater rejects (or inflates to
		// something else) is damage; padding bits may be flipped harmlessly
		if zr, err := zlib.NewReader(bytes.NewReader(z)); err == nil && j.Arg != "trailer" {
			if out, err := io.ReadAll(zr); bytes.Equal(out, payload) {
				if err == nil {
					return nil, 0, "bit flip is harmless to the reference inflater"
				}
				// the whole payload inflates and only the end of the stream is
				// broken (e.g. the BFINAL bit): same root cause as the listed
				// known finding C06/zlib-truncated-trailer; excluded by
				// construction and counted.
				return nil, 0, "excluded-known: payload complete, stream end damaged"
			}
		}
		var b pbfgen.W
		b.Varint(2, uint64(len(payload)))
		b.Bytes(3, z)
		return replace(pbfgen.FrameBlob(typ, b.B, nil)), nbefore, ""
	case "zlib-empty":
		// a zlib stream that inflates to nothing although raw_size announces
		// the real payload size
		if len(payload) == 0 {
			return nil, 0, "empty payload"
		}
		var zb bytes.Buffer
		zw := zlib.NewWriter(&zb)
		zw.Close()
		var b pbfgen.W
		b.Varint(2, uint64(len(payload)))
		b.Bytes(3, zb.Bytes())
		return replace(pbfgen.FrameBlob(typ, b.B, nil)), nbefore, ""
	case "blobheader-field-missing":
		// a BlobHeader without one of its required fields. "type" and
		// "datasize" keep the block's own blob; "datasize-after-twin" puts the
		// damaged header in front of a copy of the previous block's blob, so that
		// a reader which carries header fields over from the previous block would
		// read a well-formed block.
		var h pbfgen.W
		body := blob
		switch j.Arg {
		case "type":
			h.Varint(3, uint64(len(blob)))
		case "datasize":
			h.Bytes(1, []byte(typ))
		case "datasize-after-twin", "type-after-twin":
			if pos < 1 {
				return nil, 0, "needs a preceding data block"
			}
			prev := pbfgen.EncodeBlob(f.Blocks[pos-1].Encode(), pbfgen.BlobOpt{Zlib: f.Blocks[pos-1].Zlib, RawSize: f.Blocks[pos-1].RawSizeOnRaw})
			// the twin must have the previous frame's datasize
			if want := enc.Blocks[pos-1].End - enc.Blocks[pos-1].Start; len(pbfgen.FrameBlob("OSMData", prev, nil)) != want {
				return nil, 0, "previous block carries index data"
			}
			body = prev
			if j.Arg == "datasize-after-twin" {
				h.Bytes(1, []byte(typ))
			} else {
				h.Varint(3, uint64(len(prev)))
			}
		}
		out := make([]byte, 4)
		binary.BigEndian.PutUint32(out, uint32(len(h.B)))
		out = append(out, h.B...)
		return replace(append(out, body...)), nbefore, ""
	case "blob-unknown-encoding":
		var b pbfgen.W
		if j.Arg == "lzma" {
			b.Varint(2, uint64(len(payload)))
			b.Bytes(4, payload)
		}
		return replace(pbfgen.FrameBlob(typ, b.B, nil)), nbefore, ""
	case "block-type-unknown":
		if j.Arg == "OSMHeader" {
			// a data block (not the first block) labelled as a header block
			if pos < 0 || (pos == 0 && f.Header == nil) {
				return nil, 0, "needs a block before it"
			}
			return replace(pbfgen.FrameBlob("OSMHeader", blob, nil)), nbefore, ""
		}
		return replace(pbfgen.FrameBlob("OSMFoo", blob, nil)), nbefore, ""
	case "second-header":
		if pos < 0 {
			return nil, 0, "data position only"
		}
		h := pbfgen.FileBlock("OSMHeader", (&pbfgen.Header{Required: []string{"OsmSchema-V0.6"}}).Encode(), pbfgen.BlobOpt{})
		out := append([]byte{}, enc.Data[:start]...)
		out = append(out, h...)
		return append(out, enc.Data[start:]...), nbefore, ""
	case "required-feature-unsupported":
		if pos >= 0 {
			return nil, 0, "header position only"
		}
		h := *f.Header
		h.Required = append(append([]string{}, h.Required...), "LocationsOnWaysV9")
		return replace(pbfgen.FileBlock("OSMHeader", h.Encode(), pbfgen.BlobOpt{Zlib: zl})), 0, ""
	case "dense-missing-column":
		var col int
		fmt.Sscanf(j.Arg, "%d", &col)
		has := false
		if pos >= 0 {
			for _, g := range f.Blocks[pos].Groups {
				has = has || g.Dense != nil
			}
		}
		return mutated(&pbfgen.Mutator{DropDense: map[int]bool{col: true}}, &has)
	case "column-length":
		applied := false
		parts := strings.SplitN(j.Arg, ":", 2)
		n := 1
		if len(parts) == 2 && parts[1] == "extend" {
			n = -1
		}
		if pos >= 0 {
			applied = hasColumn(f.Blocks[pos], parts[0])
		}
		return mutated(&pbfgen.Mutator{Truncate: map[string]int{parts[0]: n}}, &applied)
	case "string-index":
		applied := false
		var tl uint64
		if pos >= 0 {
			tl = uint64(f.Blocks[pos].StringTableLen())
		}
		place, how, _ := strings.Cut(j.Arg, ":")
		mu := &pbfgen.Mutator{StringIndex: func(p string, idx uint64) uint64 {
			if p == place && !applied {
				applied = true
				switch how {
				case "neg": // a small negative reference (keys_vals is a signed column)
					return ^uint64(idx % 7)
				case "min":
					min := int64(math.MinInt32)
					return uint64(min)
				}
				return idx + tl
			}
			return idx
		}}
		return mutated(mu, &applied)
	case "missing-stringtable":
		// only a block that references at least one string index is detectably damaged
		has := false
		if pos >= 0 {
			has = referencesStrings(f.Blocks[pos])
		}
		return mutated(&pbfgen.Mutator{DropStringTable: true}, &has)
	case "plain-nodes":
		has := false
		if pos >= 0 {
			for _, g := range f.Blocks[pos].Groups {
				has = has || g.Dense != nil
			}
		}
		return mutated(&pbfgen.Mutator{PlainNodes: true}, &has)
	}
	return nil, 0, "unknown damage class"
}

func referencesStrings(b *pbfgen.Block) bool {
	for _, g := range b.Groups {
		if d := g.Dense; d != nil && len(d.Nodes) > 0 {
			if d.HasInfo && d.CUser {
				return true
			}
			for _, n := range d.Nodes {
				if len(n.Tags) > 0 {
					return true
				}
			}
		}
		for _, w := range g.Ways {
			if len(w.Tags) > 0 || (w.Info != nil && w.Info.User != nil) {
				return true
			}
		}
		for _, r := range g.Relations {
			if len(r.Tags) > 0 || len(r.Members) > 0 || (r.Info != nil && r.Info.User != nil) {
				return true
			}
		}
	}
	return false
}

func hasColumn(b *pbfgen.Block, col string) bool {
	for _, g := range b.Groups {
		if d := g.Dense; d != nil {
			switch col {
			case "dense.lat", "dense.lon":
				return true
			case "dense.version":
				if d.HasInfo && d.CVersion {
					return true
				}
			case "dense.timestamp":
				if d.HasInfo && d.CTimestamp {
					return true
				}
			case "dense.changeset":
				if d.HasInfo && d.CChangeset {
					return true
				}
			case "dense.uid":
				if d.HasInfo && d.CUID {
					return true
				}
			case "dense.user":
				if d.HasInfo && d.CUser {
					return true
				}
			case "dense.visible":
				if d.HasInfo && d.CVisible {
					return true
				}
			case "dense.keyvals":
				if d.HasKeyVals {
					return true
				}
			}
		}
		for _, w := range g.Ways {
			if (col == "way.lat" || col == "way.lon") && len(w.Lats) > 0 {
				return true
			}
			if col == "way.vals" && len(w.Tags) > 0 {
				return true
			}
		}
		for _, r := range g.Relations {
			if (col == "rel.memids" || col == "rel.types") && len(r.Members) > 0 {
				return true
			}
			if col == "rel.vals" && len(r.Tags) > 0 {
				return true
			}
		}
	}
	return false
}

// ---------------------------------------------------------------- parent pool

type child struct {
	cmd    *exec.Cmd
	in     io.WriteCloser
	out    *bufio.Reader
	stderr *bytes.Buffer
}

func startChild() (*child, error) {
	bin := os.Getenv("VERIF_BIN")
	if bin == "" {
		bin, _ = os.Executable()
	}
	cmd := exec.Command(bin)
	cmd.Env = append(os.Environ(), "VERIF_C06_CHILD=1", "GOTRACEBACK=all", "VERIF_OUT=")
	in, err := cmd.StdinPipe()
	if err != nil {
		return nil, err
	}
	out, err := cmd.StdoutPipe()
	if err != nil {
		return nil, err
	}
	c := &child{cmd: cmd, in: in, out: bufio.NewReaderSize(out, 1<<20), stderr: &bytes.Buffer{}}
	cmd.Stderr = c.stderr
	if err := cmd.Start(); err != nil {
		return nil, err
	}
	return c, nil
}

func (c *child) kill() {
	c.in.Close()
	c.cmd.Process.Kill()
	c.cmd.Wait()
}

// runJobs runs all jobs on a pool of child processes and returns verdicts by id.
func runJobs(jobs []Job) ([]Verdict, error) {
	workers := runtime.NumCPU()
	if workers > 16 {
		workers = 16
	}
	if workers > len(jobs) {
		workers = len(jobs)
	}
	verdicts := make([]Verdict, len(jobs))
	ch := make(chan int, len(jobs))
	for i := range jobs {
		ch <- i
	}
	close(ch)
	var wg sync.WaitGroup
	var infra error
	var imu sync.Mutex
	var hangs int32
	for w := 0; w < workers; w++ {
		wg.Add(1)
		go func() {
			defer wg.Done()
			var c *child
			defer func() {
				if c != nil {
					c.kill()
				}
			}()
			for i := range ch {
				if atomic.LoadInt32(&hangs) >= 3 {
					// every hang costs the 25 s watchdog: three are evidence enough
					verdicts[i] = Verdict{ID: jobs[i].ID, OK: true, Skipped: "not run: three scans of this file already hung"}
					continue
				}
				if c == nil {
					var err error
					if c, err = startChild(); err != nil {
						imu.Lock()
						infra = err
						imu.Unlock()
						return
					}
				}
				if atomic.LoadInt32(&seenHang) > 0 {
					jobs[i].Watchdog = 8
				}
				jb, _ := json.Marshal(jobs[i])
				c.in.Write(append(jb, '\n'))
				got := false
				for !got {
					line, err := c.out.ReadBytes('\n')
					var v Verdict
					if len(line) > 0 && json.Unmarshal(line, &v) == nil && v.ID == jobs[i].ID {
						if v.Begin {
							continue
						}
						verdicts[i] = v
						got = true
						if v.Sig == "C06/hang" {
							atomic.AddInt32(&hangs, 1)
							atomic.StoreInt32(&seenHang, 1)
							c.kill()
							c = nil
						}
						break
					}
					if err != nil {
						// the child died while running this job
						c.cmd.Wait()
						st := c.stderr.String()
						code := c.cmd.ProcessState.ExitCode()
						sig := "C06/process-crash/" + jobs[i].Kind
						if !crashInOSM(st) {
							sig = "harness/child-died"
						}
						verdicts[i] = Verdict{ID: jobs[i].ID, Sig: sig,
							Msg: fmt.Sprintf("child process died (exit %d) while scanning job %+v:\n%s", code, brief(jobs[i]), trunc(crashHead(st), 3000))}
						c = nil
						got = true
					}
				}
			}
		}()
	}
	wg.Wait()
	return verdicts, infra
}

func brief(j Job) string {
	return fmt.Sprintf("{kind:%s cut:%d pos:%d arg:%s procs:%d headerFirst:%v}", j.Kind, j.Cut, j.Pos, j.Arg, j.Procs, j.HeaderFirst)
}

// crashInOSM: the faulting goroutine's stack reaches library code before any
// harness frame, i.e. the fault was raised inside paulmach/osm.
func crashInOSM(st string) bool {
	h := crashHead(st)
	for _, b := range strings.Split(h, "\n\n") {
		if !strings.Contains(b, "goroutine ") {
			continue
		}
		for _, line := range strings.Split(b, "\n") {
			l := strings.TrimSpace(line)
			if strings.HasPrefix(l, "github.com/paulmach/osm") {
				return true
			}
			if strings.HasPrefix(l, "verif/") {
				return false
			}
		}
		return false
	}
	return false
}

func crashHead(st string) string {
	for _, m := range []string{"panic: ", "fatal error: "} {
		if i := strings.Index(st, m); i >= 0 {
			return st[i:]
		}
	}
	return st
}

// ---------------------------------------------------------------- property

type Case struct {
	File *pbfgen.File
	// Positions to damage: true = every block position, false = first and last
	AllPositions bool
}

var procsCycle = []int{1, 2, 5, 16}

type damageSpec struct{ Kind, Arg string }

var damageClasses = []damageSpec{
	{"header-size-too-big", "64k"}, {"header-size-too-big", "max"}, {"header-size-too-big", "64k-padded"},
	{"datasize-too-big", "32m"}, {"datasize-too-big", "max"},
	{"datasize-negative", "-1"}, {"datasize-negative", "min"},
	{"raw-size-wrong", "more"}, {"raw-size-wrong", "less"}, {"raw-size-wrong", "field-boundary"},
	{"zlib-corrupt", "truncate-half"}, {"zlib-corrupt", "adler"}, {"zlib-corrupt", "flip1"}, {"zlib-corrupt", "flip3"}, {"zlib-corrupt", "flip4"}, {"zlib-corrupt", "flip6"},
	{"blob-unknown-encoding", "empty"}, {"blob-unknown-encoding", "lzma"},
	{"block-type-unknown", ""}, {"second-header", ""}, {"required-feature-unsupported", ""},
	{"dense-missing-column", "1"}, {"dense-missing-column", "8"}, {"dense-missing-column", "9"},
	{"column-length", "dense.lat"}, {"column-length", "dense.lon"}, {"column-length", "dense.version"}, {"column-length", "dense.timestamp"},
	{"column-length", "dense.changeset"}, {"column-length", "dense.uid"}, {"column-length", "dense.user"}, {"column-length", "dense.visible"},
	{"column-length", "dense.keyvals"}, {"column-length", "way.lat:extend"}, {"column-length", "way.lon:extend"},
	{"column-length", "way.vals"}, {"column-length", "rel.vals"}, {"column-length", "rel.memids"}, {"column-length", "rel.types"},
	{"string-index", "dense.user"}, {"string-index", "dense.key"}, {"string-index", "dense.val"},
	{"string-index", "dense.key:neg"}, {"string-index", "dense.key:min"}, {"string-index", "dense.val:neg"},
	{"string-index", "way.key"}, {"string-index", "way.val"}, {"string-index", "way.user"},
	{"string-index", "rel.key"}, {"string-index", "rel.val"}, {"string-index", "rel.user"}, {"string-index", "rel.role"},
	{"plain-nodes", ""}, {"missing-stringtable", ""},
	{"zlib-empty", ""}, {"blobheader-field-missing", "type"}, {"blobheader-field-missing", "datasize"},
	{"blobheader-field-missing", "datasize-after-twin"}, {"blobheader-field-missing", "type-after-twin"},
	{"block-type-unknown", "OSMHeader"},
}

var (
	statMu    sync.Mutex
	statCuts  int
	statDmg   = map[string]int{}
	statSkips = map[string]int{}
)

func gobFile(f *pbfgen.File) string {
	b, err := json.Marshal(f)
	if err != nil {
		panic(err)
	}
	return base64.StdEncoding.EncodeToString(b)
}

func buildJobs(c Case) []Job {
	enc := c.File.Encode()
	fb := gobFile(c.File)
	var jobs []Job
	id := 0
	add := func(j Job) {
		j.ID = id
		j.File = fb
		id++
		jobs = append(jobs, j)
	}
	for cut := 0; cut <= len(enc.Data); cut++ {
		add(Job{Kind: "cut", Cut: cut, Procs: procsCycle[cut%len(procsCycle)], HeaderFirst: cut%3 == 1})
	}
	// the same cuts with a reader that fails instead of ending: at every block
	// boundary and at every seventh offset
	isBoundary := map[int]bool{0: true, len(enc.Data): true}
	if c.File.Header != nil {
		isBoundary[enc.Header.End] = true
	}
	for _, fr := range enc.Blocks {
		isBoundary[fr.End] = true
	}
	for cut := 0; cut <= len(enc.Data); cut++ {
		if isBoundary[cut] || cut%7 == 3 {
			add(Job{Kind: "cut", Cut: cut, Procs: procsCycle[(cut+1)%len(procsCycle)], HeaderFirst: cut%3 == 2, ReadErr: true})
		}
	}
	positions := []int{-1}
	if c.AllPositions {
		for k := range c.File.Blocks {
			positions = append(positions, k)
		}
	} else if n := len(c.File.Blocks); n > 0 {
		positions = append(positions, 0)
		if n > 1 {
			positions = append(positions, n-1)
		}
	}
	for _, pos := range positions {
		for di, d := range damageClasses {
			procs := procsCycle[(di+pos+1)%len(procsCycle)]
			add(Job{Kind: d.Kind, Arg: d.Arg, Pos: pos, Procs: procs, HeaderFirst: (di+pos)%3 == 0})
			if pos > 0 && procs != 1 {
				// a single decoder has seen all earlier blocks: stale per-decoder
				// state (cached iterators, buffers) can only mask damage there
				add(Job{Kind: d.Kind, Arg: d.Arg, Pos: pos, Procs: 1})
			}
		}
	}
	return jobs
}

func check(c Case) error {
	jobs := buildJobs(c)
	verdicts, err := runJobs(jobs)
	if err != nil {
		panic(fmt.Sprintf("harness: cannot run child processes: %v", err))
	}
	statMu.Lock()
	enc := c.File.Encode()
	fileKey := fmt.Sprintf("%x", sha1.Sum(enc.Data))
	var ntKeys []string
	classes := map[string]int{}
	n, excluded := 0, 0
	for i, v := range verdicts {
		j := jobs[i]
		if j.Kind == "cut" {
			statCuts++
			n++
			where := describeCut(enc, j.Cut, c.File.Header != nil)
			classes["cut:"+where]++
			if where != "boundary" {
				ntKeys = append(ntKeys, fmt.Sprintf("%s cut %d", fileKey, j.Cut))
			}
		} else if strings.HasPrefix(v.Skipped, "excluded-known") {
			excluded++
		} else if v.Skipped != "" {
			statSkips[j.Kind]++
		} else {
			statDmg[j.Kind]++
			n++
			classes["damage:"+j.Kind]++
			ntKeys = append(ntKeys, fmt.Sprintf("%s %s %s %d", fileKey, j.Kind, j.Arg, j.Pos))
		}
	}
	statMu.Unlock()
	harness.Count("cuts-and-damage", n, ntKeys, classes, excluded)
	// report the first failure in job order (deterministic)
	for _, v := range verdicts {
		if !v.OK && strings.HasPrefix(v.Sig, "harness/") {
			panic("harness fault in child process: " + v.Msg)
		}
	}
	for i, v := range verdicts {
		if !v.OK {
			return harness.Failf(v.Sig, "job %s: %s", brief(jobs[i]), v.Msg)
		}
	}
	return nil
}

func genCase(t *rapid.T) Case {
	f := pbfgen.GenFile(t, pbfgen.Opt{MinBlocks: 1, MaxBlocks: 4, Small: true, Rich: rapid.Bool().Draw(t, "rich")})
	return Case{File: f}
}

func TestCutsAndDamage(t *testing.T) {
	thorough := harness.Tier() == "thorough"
	harness.Run(t, harness.Spec[Case]{
		Name: "cuts-and-damage", N: 10,
		Rule: "per generated file (1..4 small blocks, half of them 'rich' so that every damage class applies): EVERY byte offset 0..len is cut (exhaustive per file), and every damage class (oversized/negative sizes, wrong raw_size, corrupt/truncated zlib, unknown blob encoding, unknown block type, second header, unsupported required feature, missing dense columns, short/long columns, string index beyond the table in 10 places, missing string table, plain nodes) is applied at the header block and at the first and last data block (thorough: every block); decoder count cycles through {1,2,5,16}, a third of the scans call Header() before the first Scan; each scan runs in a child process; oracle = exact object prefix of the intact blocks, Err()==nil iff cut on a block boundary, Err()!=nil for damage, no crash, no hang (25 s watchdog); an evaluation is one scan of one (file, cut offset) or (file, damage class, position); non-trivial = cut strictly inside a block, or any applicable damage; distinct by (file bytes, cut/damage)",
		Gen: func(t *rapid.T) Case {
			c := genCase(t)
			c.AllPositions = thorough
			return c
		},
		Check:         check,
		ExternalCount: true,
		Describe: func(c Case) any {
			m := c.File.Summary()
			delete(m, "header")
			m["bytes"] = len(c.File.Encode().Data)
			m["jobs"] = len(buildJobs(c))
			return m
		},
	})
	statMu.Lock()
	var ks []string
	for k := range statDmg {
		ks = append(ks, fmt.Sprintf("%s=%d", k, statDmg[k]))
	}
	sort.Strings(ks)
	var ss []string
	for k := range statSkips {
		ss = append(ss, fmt.Sprintf("%s=%d", k, statSkips[k]))
	}
	sort.Strings(ss)
	harness.Note("scans in child processes: %d cut offsets; damage scans by class: %s; not applicable (skipped): %s", statCuts, strings.Join(ks, " "), strings.Join(ss, " "))
	statMu.Unlock()
}

// TestKnownWitnesses runs one deterministic witness per listed known finding,
// so that the driver can print its KNOWN-FINDING line (and a VIOLATION if the
// entry is ever removed from known_findings.json while the defect remains).
func TestKnownWitnesses(t *testing.T) {
	if os.Getenv("VERIF_REPLAY_ONLY") != "" {
		return
	}
	f := witnessFile()
	jobs := []Job{
		{ID: 0, File: gobFile(f), Kind: "zlib-corrupt", Arg: "trailer", Pos: -1, Procs: 1},
		{ID: 1, File: gobFile(f), Kind: "zlib-corrupt", Arg: "trailer", Pos: 0, Procs: 2},
	}
	verdicts, err := runJobs(jobs)
	if err != nil {
		t.Fatalf("harness: %v", err)
	}
	for _, v := range verdicts {
		if !v.OK {
			harness.Known("C06/zlib-truncated-trailer", v.Msg)
			return
		}
	}
}

func witnessFile() *pbfgen.File {
	f := &pbfgen.File{Header: &pbfgen.Header{Required: []string{"OsmSchema-V0.6", "DenseNodes"}, Zlib: true}}
	one := int32(1)
	user := "u"
	f.Blocks = []*pbfgen.Block{{Zlib: true, Groups: []pbfgen.Group{
		{Dense: &pbfgen.Dense{HasInfo: true, CVersion: true, CUser: true, HasKeyVals: true, Nodes: []pbfgen.Node{{ID: 1, Lat: 10, Lon: 20, Version: 1, User: "u", Tags: []pbfgen.Tag{{K: "k", V: "v"}}}}}},
		{Ways: []pbfgen.Way{{ID: 2, Refs: []int64{1, 2}, Lats: []int64{1, 2}, Lons: []int64{3, 4}, Tags: []pbfgen.Tag{{K: "a", V: "b"}}, Info: &pbfgen.Info{Version: &one, User: &user}}}},
		{Relations: []pbfgen.Relation{{ID: 3, Members: []pbfgen.Member{{Type: 1, Ref: 2, Role: "outer"}}}}},
	}}}
	return f
}

// FuzzScan: byte-level robustness supplement (thorough tier): no crash, no
// hang, and a stream that is a byte-prefix-preserving mutation is not judged
// beyond that. The oracle is deliberately weak; see DESIGN.md.
func FuzzScan(f *testing.F) {
	seedFile := &pbfgen.File{Header: &pbfgen.Header{Required: []string{"OsmSchema-V0.6", "DenseNodes"}}}
	one := int32(1)
	user := "u"
	seedFile.Blocks = []*pbfgen.Block{{Groups: []pbfgen.Group{
		{Dense: &pbfgen.Dense{HasInfo: true, CVersion: true, CUser: true, HasKeyVals: true, Nodes: []pbfgen.Node{{ID: 1, Lat: 10, Lon: 20, Version: 1, User: "u", Tags: []pbfgen.Tag{{K: "k", V: "v"}}}}}},
		{Ways: []pbfgen.Way{{ID: 2, Refs: []int64{1, 2}, Lats: []int64{1, 2}, Lons: []int64{3, 4}, Tags: []pbfgen.Tag{{K: "a", V: "b"}}, Info: &pbfgen.Info{Version: &one, User: &user}}}},
		{Relations: []pbfgen.Relation{{ID: 3, Members: []pbfgen.Member{{Type: 1, Ref: 2, Role: "outer"}}}}},
	}}}
	f.Add(seedFile.Encode().Data)
	seedFile.Blocks[0].Zlib = true
	f.Add(seedFile.Encode().Data)
	// more structure for the mutator to work on: several blocks, non-canonical
	// field order, header without compression, and hostile framing constants
	two := witnessFile()
	two.Blocks = append(two.Blocks, seedFile.Blocks[0], witnessFile().Blocks[0])
	two.Blocks[1].Exotic = 7
	f.Add(two.Encode().Data)
	two.Header.Zlib = false
	two.Header.Exotic = 3
	f.Add(two.Encode().Data)
	enc := two.Encode()
	f.Add(enc.Data[:enc.Blocks[1].HeaderAt])
	f.Add(append(append([]byte{}, enc.Data[:enc.Blocks[0].Start]...), 0, 1, 0, 0))
	f.Add(append(append([]byte{}, enc.Data[:enc.Blocks[0].Start]...), 0x80, 0, 0, 0))
	f.Add([]byte{0, 0, 0, 0})
	f.Add([]byte{0xff, 0xff, 0xff, 0xff})
	f.Fuzz(func(t *testing.T, data []byte) {
		done := make(chan struct{})
		go func() {
			defer close(done)
			s := osmpbf.New(context.Background(), bytes.NewReader(data), 2)
			n := 0
			for s.Scan() {
				n++
			}
			s.Close()
		}()
		select {
		case <-done:
		case <-time.After(20 * time.Second):
			t.Fatalf("scan hangs on %d input bytes", len(data))
		}
	})
}
