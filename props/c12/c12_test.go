// Package c12 decides C12: annotation is deterministic and orders updates by
// index, time, version.
package c12

import (
	"context"
	"fmt"
	"strings"
	"testing"
	"time"

	"github.com/paulmach/osm"
	"github.com/paulmach/osm/annotate"
	"pgregory.net/rapid"

	"verif/internal/harness"
	"verif/internal/histgen"
)

func TestMain(m *testing.M) { harness.Main(m, "C12") }

type Case = histgen.Case

const runs = 8

func serialize(parents []any) string {
	var sb strings.Builder
	for _, p := range parents {
		switch x := p.(type) {
		case *osm.Way:
			fmt.Fprintf(&sb, "way v%d:", x.Version)
			for _, n := range x.Nodes {
				fmt.Fprintf(&sb, " [%d v%d cs%d %v %v]", n.ID, n.Version, n.ChangesetID, n.Lat, n.Lon)
			}
			for _, u := range x.Updates {
				fmt.Fprintf(&sb, " {%d v%d %d cs%d %v %v %v}", u.Index, u.Version, u.Timestamp.UnixNano(), u.ChangesetID, u.Lat, u.Lon, u.Reverse)
			}
		case *osm.Relation:
			fmt.Fprintf(&sb, "rel v%d:", x.Version)
			for _, m := range x.Members {
				fmt.Fprintf(&sb, " [%s/%d v%d cs%d %v %v o%d]", m.Type, m.Ref, m.Version, m.ChangesetID, m.Lat, m.Lon, m.Orientation)
			}
			for _, u := range x.Updates {
				fmt.Fprintf(&sb, " {%d v%d %d cs%d %v %v %v}", u.Index, u.Version, u.Timestamp.UnixNano(), u.ChangesetID, u.Lat, u.Lon, u.Reverse)
			}
		}
		sb.WriteString("\n")
	}
	return sb.String()
}

func once(c *Case) ([]any, error) {
	ds := c.BuildDS()
	opts := []annotate.Option{annotate.Threshold(time.Duration(c.Eps) * c.Unit())}
	if c.IgnoreInconsistency {
		opts = append(opts, annotate.IgnoreInconsistency(true))
	}
	if c.IgnoreMissing {
		opts = append(opts, annotate.IgnoreMissingChildren(true))
	}
	var parents []any
	var err error
	if c.ParentIsWay {
		ways := c.BuildWays()
		for _, w := range ways {
			parents = append(parents, w)
		}
		err = annotate.Ways(context.Background(), ways, ds, opts...)
	} else {
		rels := c.BuildRelations()
		for _, r := range rels {
			parents = append(parents, r)
		}
		err = annotate.Relations(context.Background(), rels, ds, opts...)
	}
	return parents, err
}

var lastMaxUpdates, lastSameSlot int

func check(c Case) error {
	lastMaxUpdates, lastSameSlot = 0, 0
	var first string
	firstErr := false
	for r := 0; r < runs; r++ {
		parents, err := once(&c)
		if r == 0 {
			firstErr = err != nil
		} else if (err != nil) != firstErr {
			return harness.Failf("C12/success-depends-on-order", "run 0 error=%v, run %d error=%v (%v) on equal input", firstErr, r, err != nil, err)
		}
		if err != nil {
			continue
		}
		s := serialize(parents)
		if r == 0 {
			first = s
		} else if s != first {
			return harness.Failf("C12/nondeterministic", "run %d differs from run 0 on equal input:\n--- run 0\n%s--- run %d\n%s", r, first, r, s)
		}
		for pi, p := range parents {
			var ups osm.Updates
			switch x := p.(type) {
			case *osm.Way:
				ups = x.Updates
			case *osm.Relation:
				ups = x.Updates
			}
			if len(ups) > lastMaxUpdates {
				lastMaxUpdates = len(ups)
			}
			same := 0
			for i := 1; i < len(ups); i++ {
				a, b := ups[i-1], ups[i]
				if a.Index == b.Index && a.Timestamp.Equal(b.Timestamp) {
					same++
				}
				ordered := a.Index < b.Index ||
					(a.Index == b.Index && a.Timestamp.Before(b.Timestamp)) ||
					(a.Index == b.Index && a.Timestamp.Equal(b.Timestamp) && a.Version <= b.Version)
				if !ordered {
					return harness.Failf("C12/update-order", "parent version #%d: updates %d and %d are not ordered by (index, time, version): %+v then %+v (list of %d)", pi, i-1, i, a, b, len(ups))
				}
			}
			if same > lastSameSlot {
				lastSameSlot = same
			}
		}
	}
	return nil
}

func classify(c Case) (bool, []string) {
	var cl []string
	if lastMaxUpdates >= 13 {
		cl = append(cl, ">=13-updates-on-a-parent")
	}
	if lastSameSlot >= 1 {
		cl = append(cl, "same-index-and-timestamp")
	}
	if c.Regime == histgen.Commit {
		cl = append(cl, "commit-regime")
	} else {
		cl = append(cl, "pre-commit-regime")
	}
	return lastMaxUpdates >= 13 && lastSameSlot >= 1, cl
}

func TestDeterminism(t *testing.T) {
	harness.Run(t, harness.Spec[Case]{
		Name: "determinism", N: 2500,
		Rule: "histories biased to what breaks ordering: 3..8 children with 4..12 versions each, frequent same-second clusters, parents with more than a dozen updates (Go's sort leaves insertion sort above 12 elements), commit and pre-commit regimes, with and without deletions/missing histories, a quarter with clock skew (neighbouring versions of a child swap their times, so time and version order disagree); relation parents of type route or multipolygon (way members then have located nodes and outer/inner roles, so the serialisation includes their orientation), a third of them with child ids unique per kind only (node/1, way/1 and relation/1 in one parent); every case is annotated 8 times on freshly built equal input (Go randomises map iteration per range statement); oracle = all runs fail or all succeed with identical serialisation of annotated children and update lists, and every update list is sorted by (index, timestamp, version); non-trivial = a parent with >= 13 updates and at least two updates sharing (index, timestamp)",
		Gen: func(t *rapid.T) Case {
			o := histgen.Opts{ManyUpdates: true, NoErrors: rapid.IntRange(0, 5).Draw(t, "noErrors") != 0}
			if rapid.IntRange(0, 5).Draw(t, "pre") == 0 {
				o.Regime = histgen.Pre
			}
			c := histgen.Gen(t, o)
			c.AsChildren = false
			if rapid.IntRange(0, 3).Draw(t, "skew") == 0 {
				// clock skew: two neighbouring versions of a child swap their
				// times, so time order and version order disagree. Only the
				// ordering and determinism claims are judged here.
				for k := rapid.IntRange(1, 3).Draw(t, "nskew"); k > 0; k-- {
					ci := rapid.IntRange(0, len(c.Children)-1).Draw(t, "skewChild")
					if vs := c.Children[ci].Versions; len(vs) >= 2 {
						i := rapid.IntRange(0, len(vs)-2).Draw(t, "skewAt")
						vs[i].At, vs[i+1].At = vs[i+1].At, vs[i].At
					}
				}
			}
			return c
		},
		Check:    check,
		Classify: classify,
		Floors:   map[string]float64{">=13-updates-on-a-parent": 0.2, "same-index-and-timestamp": 0.3},
	})
}

// ---------------------------------------------------------------- the ordering itself, over the whole range of time.Time

type SortCase struct {
	Ups []SU
}

type SU struct {
	Index, Version int
	T              int // index into sortTimes
	Zone           int
}

var sortZones = []*time.Location{time.UTC, time.FixedZone("", 0), time.FixedZone("", 3600), time.FixedZone("", -(5*3600 + 1800))}

var sortTimes = []time.Time{
	time.Date(1, 1, 1, 0, 0, 0, 0, time.UTC), time.Date(1600, 6, 1, 0, 0, 0, 0, time.UTC), time.Date(1677, 9, 21, 0, 12, 43, 0, time.UTC), time.Date(1677, 9, 21, 0, 12, 44, 0, time.UTC),
	time.Date(1969, 12, 31, 23, 59, 59, 0, time.UTC), time.Date(1970, 1, 1, 0, 0, 0, 0, time.UTC), time.Date(2015, 3, 1, 12, 0, 0, 0, time.UTC), time.Date(2015, 3, 1, 12, 0, 0, 1, time.UTC),
	time.Date(2015, 3, 1, 12, 0, 0, 500000000, time.UTC), time.Date(2015, 3, 1, 12, 0, 1, 0, time.UTC), time.Date(2262, 4, 11, 23, 47, 16, 0, time.UTC), time.Date(2262, 4, 11, 23, 47, 17, 0, time.UTC),
	time.Date(2300, 1, 1, 0, 0, 0, 0, time.UTC), time.Date(9999, 12, 31, 23, 59, 59, 0, time.UTC), {},
}

func TestSortByIndex(t *testing.T) {
	harness.Run(t, harness.Spec[SortCase]{
		Name: "sort-by-index", N: 4000,
		Rule: "update lists of 0..40 entries over 1..4 indexes, versions 0..5 and 15 instants spanning the whole range of time.Time (year 1, 1600, the int64-nanosecond limits in 1677 and 2262, around 1970, nanosecond/half-second/second neighbours in 2015, 2300, 9999, the zero time), each carried in one of four locations; oracle = after Updates.SortByIndex the list is a permutation of the input ordered by (index, instant, version); non-trivial = >= 13 entries with two sharing (index, instant)",
		Gen: func(t *rapid.T) SortCase {
			n := rapid.SampledFrom([]int{0, 1, 2, 5, 12, 13, 14, 20, 40}).Draw(t, "n")
			nidx := rapid.IntRange(1, 4).Draw(t, "nidx")
			var c SortCase
			for i := 0; i < n; i++ {
				c.Ups = append(c.Ups, SU{Index: rapid.IntRange(0, nidx-1).Draw(t, "idx"), Version: rapid.IntRange(0, 5).Draw(t, "ver"), T: rapid.IntRange(0, len(sortTimes)-1).Draw(t, "t"), Zone: rapid.IntRange(0, 3).Draw(t, "zone")})
			}
			return c
		},
		Check: func(c SortCase) error {
			var us osm.Updates
			count := map[string]int{}
			key := func(u osm.Update) string {
				return fmt.Sprintf("%d/%d/%d/%d", u.Index, u.Version, u.Timestamp.Unix(), u.Timestamp.Nanosecond())
			}
			for _, x := range c.Ups {
				u := osm.Update{Index: x.Index, Version: x.Version, Timestamp: sortTimes[x.T].In(sortZones[x.Zone])}
				us = append(us, u)
				count[key(u)]++
			}
			us.SortByIndex()
			if len(us) != len(c.Ups) {
				return harness.Failf("C12/sort-not-permutation", "SortByIndex changed the length from %d to %d", len(c.Ups), len(us))
			}
			for _, u := range us {
				count[key(u)]--
			}
			for k, n := range count {
				if n != 0 {
					return harness.Failf("C12/sort-not-permutation", "SortByIndex output is not a permutation of its input (entry %s: %+d)", k, -n)
				}
			}
			for i := 1; i < len(us); i++ {
				a, b := us[i-1], us[i]
				ordered := a.Index < b.Index ||
					(a.Index == b.Index && a.Timestamp.Before(b.Timestamp)) ||
					(a.Index == b.Index && a.Timestamp.Equal(b.Timestamp) && a.Version <= b.Version)
				if !ordered {
					return harness.Failf("C12/update-order", "SortByIndex: entries %d and %d are not ordered by (index, time, version): %+v then %+v (list of %d)", i-1, i, a, b, len(us))
				}
			}
			return nil
		},
		Classify: func(c SortCase) (bool, []string) {
			seen := map[[2]int]bool{}
			dup := false
			for _, x := range c.Ups {
				k := [2]int{x.Index, x.T}
				if seen[k] {
					dup = true
				}
				seen[k] = true
			}
			return len(c.Ups) >= 13 && dup, nil
		},
	})
}
