// Package c14 decides C14: child-first relation ordering emits children before
// parents, each id once, and always ends (also under Close / cancellation).
package c14

import (
	"context"
	"errors"
	"fmt"
	"runtime"
	"strings"
	"sync/atomic"
	"testing"
	"time"

	"github.com/paulmach/osm"
	"github.com/paulmach/osm/annotate"
	"pgregory.net/rapid"

	"verif/internal/harness"
)

func TestMain(m *testing.M) { harness.Main(m, "C14") }

type Member struct {
	Type string // node, way, relation
	Ref  int64
}

type Version struct{ Members []Member }

type Rel struct {
	ID       int64
	Versions []Version // empty = no history for this id
}

const (
	stopNone = iota
	stopClose
	stopCancel
)

type Case struct {
	Rels    []Rel
	Request []int64
	Stop    int
	StopAt  int  // after this many successful Next calls
	SlowDS  bool // the datasource yields between calls
	// ViaChange: the histories are put into the create/modify/delete sections
	// of an osm.Change and served by its HistoryDatasource().
	ViaChange bool
	// FailRel > 0: looking up the FailRel-th relation with history (modulo)
	// fails with a backend error once FailAfter lookups were served.
	FailRel   int
	FailAfter int
	IDMode    int // 0 ids 1..n; 1 ids above 2^40; 2 negative ids (placeholders of unsaved elements); informational, the ids in Rels/Request are already mapped
}

// mapIDs rewrites every relation id (own ids, relation member refs, requests).
func (c *Case) mapIDs(f func(int64) int64) {
	for i := range c.Rels {
		c.Rels[i].ID = f(c.Rels[i].ID)
		for v := range c.Rels[i].Versions {
			for m := range c.Rels[i].Versions[v].Members {
				if c.Rels[i].Versions[v].Members[m].Type == "relation" {
					c.Rels[i].Versions[v].Members[m].Ref = f(c.Rels[i].Versions[v].Members[m].Ref)
				}
			}
		}
	}
	for i := range c.Request {
		c.Request[i] = f(c.Request[i])
	}
}

type ds struct {
	hist  map[osm.RelationID]osm.Relations
	slow  bool
	calls int64 // lookups started
	// inner (optional): the histories are served by this data source, obtained
	// from (*osm.Change).HistoryDatasource()
	inner *osm.HistoryDatasource
	// failID/failAfter: the lookup of failID fails with errBackend (a real
	// error, not not-found) once failAfter lookups have been served
	failID    osm.RelationID
	failAfter int64
	failed    int64
}

var errBackend = errors.New("c14: injected backend failure")

var errNF = fmt.Errorf("not found")

func (d *ds) RelationHistory(ctx context.Context, id osm.RelationID) (osm.Relations, error) {
	n := atomic.AddInt64(&d.calls, 1)
	if d.slow {
		runtime.Gosched()
	}
	if d.failID != 0 && id == d.failID && n > d.failAfter {
		atomic.AddInt64(&d.failed, 1)
		return nil, errBackend
	}
	if d.inner != nil {
		h, err := d.inner.RelationHistory(ctx, id)
		if err != nil {
			return nil, errNF
		}
		return h, nil
	}
	if h, ok := d.hist[id]; ok {
		return h, nil
	}
	return nil, errNF
}
func (d *ds) NotFound(err error) bool { return err == errNF }

var stackBuf = make([]byte, 1<<20)

func orderingGoroutines() string {
	buf := stackBuf
	n := runtime.Stack(buf, true)
	var out []string
	for _, g := range strings.Split(string(buf[:n]), "\n\n") {
		if strings.Contains(g, "annotate.(*ChildFirstOrdering)") || strings.Contains(g, "annotate.NewChildFirstOrdering") {
			out = append(out, g)
		}
	}
	return strings.Join(out, "\n\n")
}

type result struct {
	got       []int64
	nextAfter bool // Next returned true after the stop
	err       error
	atClose   int64 // data source lookups started when Close returned (-1: Close not called)
}

func build(c Case) (d *ds, has map[int64]bool, edges map[int64]map[int64]bool, req []osm.RelationID) {
	d = &ds{hist: map[osm.RelationID]osm.Relations{}, slow: c.SlowDS}
	has = map[int64]bool{}
	edges = map[int64]map[int64]bool{}
	for _, r := range c.Rels {
		if len(r.Versions) == 0 {
			continue
		}
		has[r.ID] = true
		edges[r.ID] = map[int64]bool{}
		for vi, v := range r.Versions {
			rel := &osm.Relation{ID: osm.RelationID(r.ID), Version: vi + 1, Visible: true}
			for _, m := range v.Members {
				rel.Members = append(rel.Members, osm.Member{Type: osm.Type(m.Type), Ref: m.Ref})
				if m.Type == "relation" {
					edges[r.ID][m.Ref] = true
				}
			}
			d.hist[rel.ID] = append(d.hist[rel.ID], rel)
		}
	}
	for _, r := range c.Request {
		req = append(req, osm.RelationID(r))
	}
	if c.ViaChange {
		hc := &osm.Change{Create: &osm.OSM{}, Modify: &osm.OSM{}, Delete: &osm.OSM{}}
		sec := []*osm.OSM{hc.Create, hc.Modify, hc.Delete}
		i := 0
		for _, r := range c.Rels {
			for _, rel := range d.hist[osm.RelationID(r.ID)] {
				sec[i%3].Relations = append(sec[i%3].Relations, rel)
				i++
			}
		}
		d.inner = hc.HistoryDatasource()
	}
	if c.FailRel > 0 {
		var withHist []int64
		for _, r := range c.Rels {
			if len(r.Versions) > 0 {
				withHist = append(withHist, r.ID)
			}
		}
		if len(withHist) > 0 {
			d.failID = osm.RelationID(withHist[c.FailRel%len(withHist)])
			d.failAfter = int64(c.FailAfter)
		}
	}
	return
}

func check(c Case) error {
	d, has, edges, req := build(c)
	ctx, cancel := context.WithCancel(context.Background())
	defer cancel()
	done := make(chan result, 1)
	go func() {
		res := result{atClose: -1}
		o := annotate.NewChildFirstOrdering(ctx, req, d)
		stopped := false
		for {
			if c.Stop != stopNone && len(res.got) == c.StopAt {
				stopped = true
				break
			}
			if !o.Next() {
				break
			}
			res.got = append(res.got, int64(o.RelationID()))
			if len(res.got) > 10000 {
				break
			}
		}
		if stopped {
			switch c.Stop {
			case stopClose:
				o.Close()
				res.atClose = atomic.LoadInt64(&d.calls)
			case stopCancel:
				cancel()
			}
			if o.Next() {
				res.nextAfter = true
			}
		}
		res.err = o.Err()
		if c.Stop != stopCancel || !stopped {
			o.Close() // Close after completion must return as well
		}
		done <- res
	}()
	var res result
	select {
	case res = <-done:
	case <-time.After(20 * time.Second):
		g := orderingGoroutines()
		if g == "" {
			panic("harness: C14 case exceeded 20s without an ordering goroutine")
		}
		return harness.Failf("C14/deadlock", "iteration / Close did not return within 20s (stop=%d at %d, request %v); goroutines in ordering frames:\n%s", c.Stop, c.StopAt, c.Request, g)
	}
	// the producer goroutine ends (after Close it must already be gone; after a
	// bare cancel it ends on its own)
	deadline := time.Now().Add(5 * time.Second)
	for orderingGoroutines() != "" {
		if time.Now().After(deadline) {
			return harness.Failf("C14/goroutine-leak", "producer goroutine still alive 5s after the iteration ended (stop=%d):\n%s", c.Stop, orderingGoroutines())
		}
		time.Sleep(time.Millisecond)
	}
	return judge(c, d, has, edges, res)
}

// judge checks the emitted ids of one iteration against the reference graph.
func judge(c Case, d *ds, has map[int64]bool, edges map[int64]map[int64]bool, res result) error {
	if now := atomic.LoadInt64(&d.calls); res.atClose >= 0 && now != res.atClose {
		return harness.Failf("C14/lookup-after-close", "Close returned after %d data source lookups, yet %d more were started afterwards (stop after %d Next calls): the goroutine outlived Close", res.atClose, now-res.atClose, c.StopAt)
	}
	if len(res.got) > 10000 {
		return harness.Failf("C14/non-termination", "more than 10000 ids emitted for %d relations", len(c.Rels))
	}
	if res.nextAfter {
		return harness.Failf("C14/next-after-stop", "Next returned true after Close/cancel")
	}
	seen := map[int64]bool{}
	pos := map[int64]int{}
	for i, g := range res.got {
		if seen[g] {
			return harness.Failf("C14/duplicate", "id %d emitted twice: %v (request %v)", g, res.got, c.Request)
		}
		seen[g] = true
		pos[g] = i
		if !has[g] {
			return harness.Failf("C14/no-history-emitted", "id %d has no history but was emitted: %v", g, res.got)
		}
	}
	reach := func(from int64) map[int64]bool {
		out := map[int64]bool{}
		st := []int64{from}
		for len(st) > 0 {
			x := st[len(st)-1]
			st = st[:len(st)-1]
			for y := range edges[x] {
				if has[y] && !out[y] {
					out[y] = true
					st = append(st, y)
				}
			}
		}
		return out
	}
	// emitted ids are requested or reachable from a requested id
	allowed := map[int64]bool{}
	for _, r := range c.Request {
		if has[r] {
			allowed[r] = true
			for y := range reach(r) {
				allowed[y] = true
			}
		}
	}
	for _, g := range res.got {
		if !allowed[g] {
			return harness.Failf("C14/unrelated-id", "id %d is neither requested nor reachable from a requested relation: %v (request %v)", g, res.got, c.Request)
		}
	}
	stoppedEarly := c.Stop != stopNone && len(res.got) == c.StopAt && c.StopAt < len(allowed)
	cyclic := false
	for id := range has {
		if reach(id)[id] {
			cyclic = true
		}
	}
	// child-first order holds for every prefix as well
	if !cyclic {
		for _, g := range res.got {
			for y := range reach(g) {
				p, ok := pos[y]
				if !ok || p > pos[g] {
					return harness.Failf("C14/parent-before-child", "relation %d emitted before relation %d which it (transitively) references: %v (request %v)", g, y, res.got, c.Request)
				}
			}
		}
	}
	if stoppedEarly {
		return nil
	}
	if atomic.LoadInt64(&d.failed) > 0 {
		// a lookup failed with a real error: the iteration ends (the watchdog
		// covers a consumer left blocked) and reports that error; what was emitted
		// before has been checked above
		if c.Stop == stopNone && !errors.Is(res.err, errBackend) {
			return harness.Failf("C14/error", "a data source lookup failed with %q; the iteration ended with Err() = %v after %v", errBackend, res.err, res.got)
		}
		return nil
	}
	if res.err != nil && c.Stop == stopNone {
		return harness.Failf("C14/error", "complete iteration reported %v", res.err)
	}
	if c.Stop == stopNone || len(res.got) < c.StopAt {
		for _, r := range c.Request {
			if has[r] && !seen[r] {
				return harness.Failf("C14/requested-missing", "requested relation %d (has history) was not emitted: %v (request %v, cyclic=%v)", r, res.got, c.Request, cyclic)
			}
		}
	}
	return nil
}

func classify(c Case) (bool, []string) {
	has := map[int64]bool{}
	for _, r := range c.Rels {
		if len(r.Versions) > 0 {
			has[r.ID] = true
		}
	}
	edges, selfloop := 0, false
	adj := map[int64]map[int64]bool{}
	for _, r := range c.Rels {
		adj[r.ID] = map[int64]bool{}
		for _, v := range r.Versions {
			for _, m := range v.Members {
				if m.Type == "relation" && has[m.Ref] {
					edges++
					adj[r.ID][m.Ref] = true
					if m.Ref == r.ID {
						selfloop = true
					}
				}
			}
		}
	}
	cyclic := false
	for id := range has {
		seen := map[int64]bool{}
		st := []int64{id}
		for len(st) > 0 {
			x := st[len(st)-1]
			st = st[:len(st)-1]
			for y := range adj[x] {
				if y == id {
					cyclic = true
				}
				if !seen[y] {
					seen[y] = true
					st = append(st, y)
				}
			}
		}
	}
	var cl []string
	if cyclic {
		cl = append(cl, "cyclic")
	}
	if selfloop {
		cl = append(cl, "self-loop")
	}
	if c.Stop != stopNone {
		cl = append(cl, "early-stop")
	}
	if c.Stop == stopClose && c.StopAt == 0 {
		cl = append(cl, "close-before-first-next")
	}
	if c.IDMode != 0 {
		cl = append(cl, "ids-outside-40-bits")
	}
	return edges >= 1 && len(has) >= 3, cl
}

func TestOrdering(t *testing.T) {
	harness.Run(t, harness.Spec[Case]{
		Name: "ordering", N: 10000,
		Rule: "reference graphs over 1..12 relation ids: DAGs, cycles, self loops, ids without history, 1..3 versions per relation with different member sets, node/way members (also with ids equal to relation ids), request lists with duplicates, unknown ids, arbitrary order; a quarter of the data sources are obtained from (*osm.Change).HistoryDatasource() with the versions spread over the three sections; one case in six lets the lookup of one relation fail with a real error after 0..6 lookups (the iteration must end and report it); half of the graphs use relation ids above 2^40 or negative ids; stop plans: run to completion, Close after k Next calls, parent-context cancel after k; oracle = no duplicates, only ids with history, only requested-or-reachable ids, every requested id with history present after a complete run, on acyclic graphs every id after all ids reachable from it (checked on every prefix), Next false after the stop, iteration/Close return within 20 s, producer goroutine gone, no data source lookup started after Close returned; non-trivial = >=3 relations with history and >=1 relation->relation edge",
		Gen: func(t *rapid.T) Case {
			n := rapid.IntRange(1, 12).Draw(t, "n")
			dag := rapid.IntRange(0, 2).Draw(t, "dag") != 0
			c := Case{}
			for id := 1; id <= n; id++ {
				r := Rel{ID: int64(id)}
				if rapid.IntRange(0, 6).Draw(t, "nohist") != 0 {
					nv := rapid.IntRange(1, 3).Draw(t, "nv")
					for v := 0; v < nv; v++ {
						var ver Version
						nm := rapid.IntRange(0, 4).Draw(t, "nm")
						for k := 0; k < nm; k++ {
							ty := rapid.SampledFrom([]string{"relation", "relation", "relation", "way", "node"}).Draw(t, "ty")
							ref := int64(rapid.IntRange(1, n+1).Draw(t, "ref"))
							if dag && ty == "relation" {
								if id == 1 {
									ty = "way"
								} else {
									ref = int64(rapid.IntRange(1, id-1).Draw(t, "dagref"))
								}
							}
							ver.Members = append(ver.Members, Member{Type: ty, Ref: ref})
						}
						r.Versions = append(r.Versions, ver)
					}
				}
				c.Rels = append(c.Rels, r)
			}
			nreq := rapid.IntRange(0, n+3).Draw(t, "nreq")
			for i := 0; i < nreq; i++ {
				c.Request = append(c.Request, int64(rapid.IntRange(1, n+1).Draw(t, "req")))
			}
			c.Stop = rapid.SampledFrom([]int{stopNone, stopNone, stopClose, stopCancel}).Draw(t, "stop")
			c.StopAt = rapid.IntRange(0, n).Draw(t, "stopAt")
			c.SlowDS = rapid.Bool().Draw(t, "slow")
			c.ViaChange = rapid.IntRange(0, 3).Draw(t, "viaChange") == 0
			if rapid.IntRange(0, 5).Draw(t, "fault?") == 0 {
				c.FailRel = rapid.IntRange(1, 12).Draw(t, "failRel")
				c.FailAfter = rapid.IntRange(0, 6).Draw(t, "failAfter")
			}
			c.IDMode = rapid.SampledFrom([]int{0, 0, 1, 2}).Draw(t, "idMode")
			switch c.IDMode {
			case 1:
				c.mapIDs(func(id int64) int64 { return id + 1<<40 })
			case 2:
				c.mapIDs(func(id int64) int64 { return -id })
			}
			return c
		},
		Check:    check,
		Classify: classify,
		Floors:   map[string]float64{"cyclic": 0.15, "early-stop": 0.3},
	})
}

// TestDeepChains: nesting deeper than any pre-sized path buffer.
func TestDeepChains(t *testing.T) {
	harness.Run(t, harness.Spec[Case]{
		Name: "deep-chains", N: 150,
		Rule: "acyclic chains of 90..260 relations (relation i references i+1, plus up to 20 forward shortcut edges, 1-2 versions each, a few ids without history at the far end), requests = the head alone, the head plus a shuffled sample, or every id in shuffled order; same oracle as the ordering sub-check; non-trivial = depth >= 100",
		Gen: func(t *rapid.T) Case {
			n := rapid.SampledFrom([]int{90, 99, 100, 101, 102, 128, 150, 200, 260}).Draw(t, "depth")
			c := Case{}
			for id := 1; id <= n; id++ {
				r := Rel{ID: int64(id)}
				ver := Version{}
				if id < n {
					ver.Members = append(ver.Members, Member{Type: "relation", Ref: int64(id + 1)})
				}
				if rapid.IntRange(0, 9).Draw(t, "node?") == 0 {
					ver.Members = append(ver.Members, Member{Type: "node", Ref: int64(id)})
				}
				r.Versions = append(r.Versions, ver)
				if rapid.IntRange(0, 9).Draw(t, "v2?") == 0 {
					r.Versions = append(r.Versions, Version{Members: append([]Member{{Type: "way", Ref: 7}}, ver.Members...)})
				}
				c.Rels = append(c.Rels, r)
			}
			for k := rapid.IntRange(0, 20).Draw(t, "shortcuts"); k > 0; k-- {
				a := rapid.IntRange(1, n-1).Draw(t, "from")
				b := rapid.IntRange(a+1, n).Draw(t, "to")
				c.Rels[a-1].Versions[0].Members = append(c.Rels[a-1].Versions[0].Members, Member{Type: "relation", Ref: int64(b)})
			}
			if rapid.Bool().Draw(t, "tailMissing") {
				c.Rels[n-1].Versions = nil
			}
			switch rapid.IntRange(0, 2).Draw(t, "reqMode") {
			case 0:
				c.Request = []int64{1}
			case 1:
				c.Request = []int64{1}
				for k := rapid.IntRange(1, 10).Draw(t, "extra"); k > 0; k-- {
					c.Request = append(c.Request, int64(rapid.IntRange(1, n).Draw(t, "req")))
				}
			default:
				ids := make([]int64, n)
				for i := range ids {
					ids[i] = int64(i + 1)
				}
				c.Request = rapid.Permutation(ids).Draw(t, "reqAll")
			}
			return c
		},
		Check: check,
		Classify: func(c Case) (bool, []string) {
			return len(c.Rels) >= 100, []string{fmt.Sprintf("depth=%d", len(c.Rels))}
		},
		Describe: func(c Case) any {
			return map[string]any{"depth": len(c.Rels), "request_len": len(c.Request), "first_requests": c.Request[:min(len(c.Request), 8)]}
		},
	})
}

// ---------------------------------------------------------------- two orderings alive at once

type PairCase struct {
	A, B  Case // both without early stop
	After int  // ids taken from A before B is created and run to its end
}

func TestTwoOrderings(t *testing.T) {
	gen := func(t *rapid.T, l string) Case {
		// acyclic chains with shortcuts: depth makes the walk hold a long path
		n := rapid.IntRange(3, 30).Draw(t, l+"n")
		c := Case{}
		for id := 1; id <= n; id++ {
			ver := Version{}
			if id < n {
				ver.Members = append(ver.Members, Member{Type: "relation", Ref: int64(id + 1)})
			}
			if id+2 <= n && rapid.Bool().Draw(t, l+"skip") {
				ver.Members = append(ver.Members, Member{Type: "relation", Ref: int64(rapid.IntRange(id+2, n).Draw(t, l+"to"))})
			}
			c.Rels = append(c.Rels, Rel{ID: int64(id), Versions: []Version{ver}})
		}
		c.Request = []int64{1}
		if rapid.Bool().Draw(t, l+"more") {
			c.Request = append(c.Request, int64(rapid.IntRange(1, n).Draw(t, l+"req")))
		}
		return c
	}
	harness.Run(t, harness.Spec[PairCase]{
		Name: "two-orderings", N: 400,
		Rule: "two orderings over independent acyclic graphs (chains of 3..30 relations with shortcut edges) alive at the same time: k ids are taken from the first, then the second is created and iterated to its end, then the first is finished; oracle = each emitted sequence satisfies the ordering sub-check's oracle for its own graph; non-trivial = both graphs have >= 3 relations",
		Gen: func(t *rapid.T) PairCase {
			a, b := gen(t, "a"), gen(t, "b")
			// the same id range in half of the cases (state leaking from one ordering
			// into the other then looks like a visited id or a cycle), disjoint
			// ranges otherwise (a foreign id then shows up as unrelated)
			if rapid.Bool().Draw(t, "disjoint") {
				b.mapIDs(func(id int64) int64 { return id + 1000 })
			}
			return PairCase{A: a, B: b, After: rapid.IntRange(0, 5).Draw(t, "after")}
		},
		Check: func(c PairCase) error {
			done := make(chan error, 1)
			go func() {
				da, hasA, edgesA, reqA := build(c.A)
				db, hasB, edgesB, reqB := build(c.B)
				oa := annotate.NewChildFirstOrdering(context.Background(), reqA, da)
				ra, rb := result{atClose: -1}, result{atClose: -1}
				for len(ra.got) < c.After && oa.Next() {
					ra.got = append(ra.got, int64(oa.RelationID()))
				}
				ob := annotate.NewChildFirstOrdering(context.Background(), reqB, db)
				for ob.Next() && len(rb.got) <= 10000 {
					rb.got = append(rb.got, int64(ob.RelationID()))
				}
				rb.err = ob.Err()
				ob.Close()
				for oa.Next() && len(ra.got) <= 10000 {
					ra.got = append(ra.got, int64(oa.RelationID()))
				}
				ra.err = oa.Err()
				oa.Close()
				if err := judge(c.B, db, hasB, edgesB, rb); err != nil {
					done <- err
					return
				}
				done <- judge(c.A, da, hasA, edgesA, ra)
			}()
			select {
			case err := <-done:
				return err
			case <-time.After(20 * time.Second):
				return harness.Failf("C14/deadlock", "two orderings alive at once did not finish within 20s; goroutines in ordering frames:\n%s", orderingGoroutines())
			}
		},
		Classify: func(c PairCase) (bool, []string) { return len(c.A.Rels) >= 3 && len(c.B.Rels) >= 3, nil },
		Describe: func(c PairCase) any {
			return map[string]any{"relations_a": len(c.A.Rels), "relations_b": len(c.B.Rels), "taken_from_a_first": c.After}
		},
	})
}
