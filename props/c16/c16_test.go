// Package c16 decides C16: multipolygon assembly recovers the original rings
// for any split, piece direction and member order.
package c16

import (
	"context"
	"fmt"
	"math"
	"sort"
	"strings"
	"testing"
	"time"

	"github.com/paulmach/orb"
	"github.com/paulmach/osm"
	"github.com/paulmach/osm/annotate"
	"github.com/paulmach/osm/osmgeojson"
	"pgregory.net/rapid"

	"verif/internal/harness"
)

func TestMain(m *testing.M) { harness.Main(m, "C16") }

type P [2]float64 // lon, lat

type Ring struct {
	Pts   []P // open ring, counter-clockwise, simple
	Outer bool
	Poly  int
	// cutting plan
	Cuts  []int  // vertex indexes where the ring is cut (sorted); empty = one closed way
	Start int    // first vertex of the single closed way when there are < 2 cuts
	Rev   []bool // per piece: the way runs against the ring's CCW traversal
}

type Case struct {
	Rings       []Ring
	Order       []int // permutation of the way-member indexes (shorter => identity tail)
	RelType     string
	Annotated   bool // coordinates on way nodes instead of separate node objects
	Orient      int  // 0 no orientation annotations, 1 produced by annotate.Relations, 2 ground truth set directly
	Extras      int  // bit 0: node member, bit 1: relation member, bit 2: way member with another role
	NodeShuffle int  // rotation applied to the node list
	RelTagged   bool // relation carries a tag besides type
	Tiny        bool // grid family scaled to the 1e-7 coordinate step, far from the origin
}

func shoelace(pts []P) float64 {
	// relative to the first vertex: differences of nearby doubles are exact,
	// so the sign is right for rings of a few 1e-7 steps anywhere on the globe.
	a, o := 0.0, pts[0]
	for i := range pts {
		p, q := pts[i], pts[(i+1)%len(pts)]
		a += (p[0]-o[0])*(q[1]-o[1]) - (q[0]-o[0])*(p[1]-o[1])
	}
	return a / 2
}

type piece struct {
	idx      []int
	reversed bool
	ring     int
}

func (c *Case) pieces() []piece {
	var out []piece
	for ri, r := range c.Rings {
		n := len(r.Pts)
		var ps [][]int
		switch {
		case len(r.Cuts) < 2:
			st := r.Start % n
			if len(r.Cuts) == 1 {
				st = r.Cuts[0] % n
			}
			var idx []int
			for k := 0; k <= n; k++ {
				idx = append(idx, (st+k)%n)
			}
			ps = append(ps, idx)
		default:
			for ci := range r.Cuts {
				a, b := r.Cuts[ci]%n, r.Cuts[(ci+1)%len(r.Cuts)]%n
				var idx []int
				for k := a; ; k = (k + 1) % n {
					idx = append(idx, k)
					if k == b && len(idx) > 1 {
						break
					}
				}
				ps = append(ps, idx)
			}
		}
		for pi, idx := range ps {
			rev := pi < len(r.Rev) && r.Rev[pi]
			if rev {
				r2 := make([]int, len(idx))
				for i := range idx {
					r2[len(idx)-1-i] = idx[i]
				}
				idx = r2
			}
			out = append(out, piece{idx: idx, reversed: rev, ring: ri})
		}
	}
	return out
}

// build creates the OSM data; mode controls where coordinates live: 0 node
// objects only, 1 annotated way nodes only, 2 mixed per way node (node objects
// for every vertex, every other way node additionally annotated; which parity
// is annotated follows NodeShuffle, so a way's first node is either kind).
func (c *Case) build(mode int) (*osm.OSM, *osm.Relation, map[int64]orb.Orientation, map[osm.FeatureID]bool) {
	o := &osm.OSM{}
	rel := &osm.Relation{ID: 1, Version: 1, Visible: true, Timestamp: time.Date(2015, 1, 1, 0, 0, 0, 0, time.UTC), Tags: osm.Tags{{Key: "type", Value: c.RelType}}}
	if c.RelTagged {
		rel.Tags = append(rel.Tags, osm.Tag{Key: "natural", Value: "water"})
	}
	wantOrient := map[int64]orb.Orientation{}
	unrelated := map[osm.FeatureID]bool{}
	base := make([]osm.NodeID, len(c.Rings))
	nid := osm.NodeID(1)
	for ri, r := range c.Rings {
		base[ri] = nid
		nid += osm.NodeID(len(r.Pts))
	}
	var members osm.Members
	wid := osm.WayID(1)
	annotatedWays := mode == 1
	for _, pc := range c.pieces() {
		r := c.Rings[pc.ring]
		w := &osm.Way{ID: wid, Version: 1, Visible: true, Timestamp: rel.Timestamp.Add(-time.Hour)}
		wid++
		for _, i := range pc.idx {
			wn := osm.WayNode{ID: base[pc.ring] + osm.NodeID(i)}
			if annotatedWays || (mode == 2 && (len(w.Nodes)+c.NodeShuffle/2)%2 == 0) {
				wn.Lon, wn.Lat, wn.Version = r.Pts[i][0], r.Pts[i][1], 1
			}
			w.Nodes = append(w.Nodes, wn)
		}
		o.Ways = append(o.Ways, w)
		role := "inner"
		if r.Outer {
			role = "outer"
		}
		m := osm.Member{Type: osm.TypeWay, Ref: int64(w.ID), Role: role}
		wantOrient[int64(w.ID)] = orb.CCW
		if pc.reversed {
			wantOrient[int64(w.ID)] = orb.CW
		}
		members = append(members, m)
	}
	// member order
	perm := make([]int, len(members))
	used := make([]bool, len(members))
	k := 0
	for _, p := range c.Order {
		if p >= 0 && p < len(members) && !used[p] {
			perm[k] = p
			used[p] = true
			k++
		}
	}
	for i := range members {
		if !used[i] {
			perm[k] = i
			k++
		}
	}
	for _, p := range perm {
		rel.Members = append(rel.Members, members[p])
	}
	if !annotatedWays {
		var nodes osm.Nodes
		for ri, r := range c.Rings {
			for i, p := range r.Pts {
				nodes = append(nodes, &osm.Node{ID: base[ri] + osm.NodeID(i), Lon: p[0], Lat: p[1], Version: 1, Visible: true})
			}
		}
		if len(nodes) > 0 {
			s := c.NodeShuffle % len(nodes)
			nodes = append(nodes[s:], nodes[:s]...)
			if c.NodeShuffle%2 == 1 {
				for i, j := 0, len(nodes)-1; i < j; i, j = i+1, j-1 {
					nodes[i], nodes[j] = nodes[j], nodes[i]
				}
			}
		}
		o.Nodes = nodes
	}
	// unrelated members interleaved
	ins := func(m osm.Member, at int) {
		at %= len(rel.Members) + 1
		rel.Members = append(rel.Members[:at], append(osm.Members{m}, rel.Members[at:]...)...)
	}
	if c.Extras&1 != 0 {
		n := &osm.Node{ID: 900001, Lon: 170, Lat: 80, Version: 1, Visible: true}
		o.Nodes = append(o.Nodes, n)
		unrelated[n.FeatureID()] = true
		ins(osm.Member{Type: osm.TypeNode, Ref: 900001, Role: "admin_centre"}, 1)
	}
	if c.Extras&2 != 0 {
		ins(osm.Member{Type: osm.TypeRelation, Ref: 77, Role: "subarea"}, 2)
	}
	if c.Extras&4 != 0 {
		w := &osm.Way{ID: 900002, Version: 1, Visible: true, Timestamp: rel.Timestamp.Add(-time.Hour), Nodes: osm.WayNodes{
			{ID: 900003, Lon: 171, Lat: 81, Version: 1}, {ID: 900004, Lon: 172, Lat: 82, Version: 1}}}
		o.Ways = append(o.Ways, w)
		unrelated[w.FeatureID()] = true
		ins(osm.Member{Type: osm.TypeWay, Ref: 900002, Role: "label"}, 0)
	}
	o.Relations = osm.Relations{rel}
	return o, rel, wantOrient, unrelated
}

func canon(r []P) string { // open ring; rotate to the smallest point; keep direction
	mi := 0
	for i := range r {
		if r[i][0] < r[mi][0] || (r[i][0] == r[mi][0] && r[i][1] < r[mi][1]) {
			mi = i
		}
	}
	var sb strings.Builder
	for i := range r {
		p := r[(mi+i)%len(r)]
		fmt.Fprintf(&sb, "%v,%v;", p[0], p[1])
	}
	return sb.String()
}

func rev(r []P) []P {
	o := make([]P, len(r))
	for i := range r {
		o[len(r)-1-i] = r[i]
	}
	return o
}

func (c *Case) expected() []string {
	polys := map[int][]string{}
	for _, r := range c.Rings {
		if r.Outer {
			polys[r.Poly] = append([]string{canon(r.Pts)}, polys[r.Poly]...)
		}
	}
	for _, r := range c.Rings {
		if !r.Outer {
			polys[r.Poly] = append(polys[r.Poly], canon(rev(r.Pts)))
		}
	}
	var out []string
	for _, hs := range polys {
		sort.Strings(hs[1:])
		out = append(out, strings.Join(hs, "|"))
	}
	sort.Strings(out)
	return out
}

func convertAndCompare(c *Case, o *osm.OSM, unrelated map[osm.FeatureID]bool, label string) error {
	fc, err := osmgeojson.Convert(o)
	if err != nil {
		return harness.Failf("C16/convert-error", "%s: Convert failed: %v", label, err)
	}
	var mps []orb.MultiPolygon
	for _, f := range fc.Features {
		switch g := f.Geometry.(type) {
		case orb.Polygon:
			mps = append(mps, orb.MultiPolygon{g})
		case orb.MultiPolygon:
			mps = append(mps, g)
		default:
			id, _ := f.ID.(string)
			fid, err := osm.ParseFeatureID(id)
			if err != nil || !unrelated[fid] {
				return harness.Failf("C16/extra-feature", "%s: unexpected feature %v with geometry %T", label, f.ID, f.Geometry)
			}
		}
	}
	if len(mps) != len(o.Relations) {
		return harness.Failf("C16/feature-count", "%s: %d polygon features for %d multipolygon relation(s) (total features %d)", label, len(mps), len(o.Relations), len(fc.Features))
	}
	for _, mp := range mps {
		if err := compareMP(c, mp, label); err != nil {
			return err
		}
	}
	return nil
}

func compareMP(c *Case, mp orb.MultiPolygon, label string) error {
	var got []string
	for _, pg := range mp {
		var hs []string
		for i, rg := range pg {
			if len(rg) < 4 || rg[0] != rg[len(rg)-1] {
				return harness.Failf("C16/ring-not-closed", "%s: ring %d of a polygon is not closed or has < 4 points: %v", label, i, rg)
			}
			pts := make([]P, len(rg)-1)
			for k := range pts {
				pts[k] = P{rg[k][0], rg[k][1]}
			}
			a := shoelace(pts)
			if i == 0 && !(a > 0) {
				return harness.Failf("C16/winding", "%s: outer ring is not counter-clockwise (area %v)", label, a)
			}
			if i > 0 && !(a < 0) {
				return harness.Failf("C16/winding", "%s: inner ring is not clockwise (area %v)", label, a)
			}
			hs = append(hs, canon(pts))
		}
		sort.Strings(hs[1:])
		got = append(got, strings.Join(hs, "|"))
	}
	sort.Strings(got)
	if want := c.expected(); fmt.Sprint(got) != fmt.Sprint(want) {
		return harness.Failf("C16/rings-differ", "%s: assembled polygons differ from the ground truth\n got  %v\n want %v", label, got, want)
	}
	return nil
}

func check(c Case) error {
	// orientation annotations by the library (also checks their values)
	var annotated osm.Members
	{
		o, rel, wantOrient, _ := c.build(1)
		ds := &osm.HistoryDatasource{Ways: map[osm.WayID]osm.Ways{}}
		for _, w := range o.Ways {
			ds.Ways[w.ID] = osm.Ways{w}
		}
		err := annotate.Relations(context.Background(), osm.Relations{rel}, ds, annotate.IgnoreMissingChildren(true))
		if err != nil {
			return harness.Failf("C16/annotate-error", "annotate.Relations failed: %v", err)
		}
		if c.RelType == "multipolygon" || c.RelType == "boundary" {
			for _, m := range rel.Members {
				if m.Type != osm.TypeWay || (m.Role != "inner" && m.Role != "outer") {
					continue
				}
				if m.Orientation != wantOrient[m.Ref] {
					return harness.Failf("C16/orientation-annotation", "way member %d (role %s) runs %v around its ring but is annotated %v", m.Ref, m.Role, wantOrient[m.Ref], m.Orientation)
				}
			}
		}
		annotated = rel.Members
	}
	// a relation history annotated in one call: between the two relation
	// versions every member way got a second version that runs the other way
	// round its ring, so version 2 of the relation expects the opposite marks
	if c.RelType == "multipolygon" || c.RelType == "boundary" {
		o, rel1, wantOrient, _ := c.build(1)
		ds := &osm.HistoryDatasource{Ways: map[osm.WayID]osm.Ways{}}
		for _, w := range o.Ways {
			w2 := *w
			w2.Version = 2
			w2.Timestamp = rel1.Timestamp.Add(time.Hour)
			w2.Nodes = make(osm.WayNodes, len(w.Nodes))
			for i := range w.Nodes {
				w2.Nodes[len(w.Nodes)-1-i] = w.Nodes[i]
			}
			ds.Ways[w.ID] = osm.Ways{w, &w2}
		}
		r2 := *rel1
		r2.Version = 2
		r2.Timestamp = rel1.Timestamp.Add(2 * time.Hour)
		r2.Members = append(osm.Members(nil), rel1.Members...)
		rel2 := &r2
		if err := annotate.Relations(context.Background(), osm.Relations{rel1, rel2}, ds, annotate.IgnoreMissingChildren(true)); err != nil {
			return harness.Failf("C16/annotate-error", "annotate.Relations on a two-version history failed: %v", err)
		}
		for vi, rel := range []*osm.Relation{rel1, rel2} {
			for _, m := range rel.Members {
				if m.Type != osm.TypeWay || (m.Role != "inner" && m.Role != "outer") {
					continue
				}
				want := wantOrient[m.Ref]
				if vi == 1 {
					want = -want
				}
				if m.Version != vi+1 {
					return harness.Failf("C16/annotate-history", "relation v%d: way member %d annotated with version %d, current was %d", vi+1, m.Ref, m.Version, vi+1)
				}
				if m.Orientation != want {
					return harness.Failf("C16/orientation-annotation", "relation history annotated in one call: relation v%d, way member %d (role %s, way version %d) runs %v around its ring but is annotated %v", vi+1, m.Ref, m.Role, vi+1, want, m.Orientation)
				}
			}
		}
	}
	for mode := 0; mode < 3; mode++ {
		for orient := 0; orient < 5; orient++ {
			o, rel, wantOrient, unrelated := c.build(mode)
			switch orient {
			case 3:
				// only some members carry the (ground-truth) annotation
				for i := range rel.Members {
					if rel.Members[i].Type == osm.TypeWay && (i+c.NodeShuffle)%3 != 0 {
						rel.Members[i].Orientation = wantOrient[rel.Members[i].Ref]
					}
				}
			case 4:
				// a second relation over the same member ways in the same data
				// set: members in reverse order, annotated; the first one is not
				rel2 := *rel
				rel2.ID = 2
				rel2.Members = nil
				for i := len(rel.Members) - 1; i >= 0; i-- {
					m := rel.Members[i]
					if m.Type == osm.TypeWay {
						m.Orientation = wantOrient[m.Ref]
					}
					rel2.Members = append(rel2.Members, m)
				}
				o.Relations = append(o.Relations, &rel2)
			case 1:
				for i := range rel.Members {
					rel.Members[i].Orientation = annotated[i].Orientation
				}
			case 2:
				for i := range rel.Members {
					if rel.Members[i].Type == osm.TypeWay {
						rel.Members[i].Orientation = wantOrient[rel.Members[i].Ref]
					}
				}
			}
			label := fmt.Sprintf("coords-source=%s orientation-mode=%s", [...]string{"node-objects", "way-nodes", "mixed-per-node"}[mode], [...]string{"none", "from-annotate", "ground-truth", "ground-truth-on-some-members", "two-relations-sharing-the-ways"}[orient])
			if err := convertAndCompare(&c, o, unrelated, label); err != nil {
				return err
			}
		}
	}
	return nil
}

func classify(c Case) (bool, []string) {
	nt := false
	outers, holes := 0, 0
	for _, r := range c.Rings {
		if r.Outer {
			outers++
		} else {
			holes++
		}
		if len(r.Cuts) >= 2 {
			for i := 0; i < len(r.Cuts) && i < len(r.Rev); i++ {
				if r.Rev[i] {
					nt = true
				}
			}
		}
	}
	var cl []string
	if outers >= 2 {
		cl = append(cl, "multi-outer")
	}
	if holes > 0 {
		cl = append(cl, "holes")
	}
	if nt {
		cl = append(cl, "split-with-reversed-piece")
	}
	if c.Extras != 0 {
		cl = append(cl, "unrelated-members")
	}
	if c.Tiny {
		cl = append(cl, "tiny-rings-on-1e-7-grid")
	}
	return nt, cl
}

func jitterRing(t *rapid.T, cx, cy, r float64, n int, phase float64) []P {
	pts := make([]P, n)
	for i := 0; i < n; i++ {
		a := phase + 2*math.Pi*float64(i)/float64(n)
		rr := r * (0.8 + 0.2*float64(rapid.IntRange(0, 100).Draw(t, "jitter"))/100)
		pts[i] = P{math.Round((cx+rr*math.Cos(a))*1e5) / 1e5, math.Round((cy+rr*math.Sin(a))*1e5) / 1e5}
	}
	return pts
}

// gridRing: rectangle on integer coordinates with extra vertices on its edges
// (so hole vertices regularly share a latitude with outer vertices).
func gridRing(t *rapid.T, x0, y0, w, h int, extra bool) []P {
	var pts []P
	add := func(x, y int) { pts = append(pts, P{float64(x), float64(y)}) }
	add(x0, y0)
	if extra && w >= 2 && rapid.Bool().Draw(t, "mb") {
		add(x0+rapid.IntRange(1, w-1).Draw(t, "xb"), y0)
	}
	add(x0+w, y0)
	if extra && h >= 2 {
		ys := rapid.SliceOfNDistinct(rapid.IntRange(1, h-1), 0, 3, func(v int) int { return v }).Draw(t, "ye")
		sort.Ints(ys)
		for _, y := range ys {
			add(x0+w, y0+y)
		}
	}
	add(x0+w, y0+h)
	if extra && w >= 2 && rapid.Bool().Draw(t, "mt") {
		add(x0+rapid.IntRange(1, w-1).Draw(t, "xt"), y0+h)
	}
	add(x0, y0+h)
	if extra && h >= 2 && rapid.Bool().Draw(t, "ml") {
		add(x0, y0+rapid.IntRange(1, h-1).Draw(t, "yl"))
	}
	return pts
}

func genCuts(t *rapid.T, r *Ring) {
	n := len(r.Pts)
	for i := 0; i < n; i++ {
		if rapid.IntRange(0, 2).Draw(t, "cut") == 0 {
			r.Cuts = append(r.Cuts, i)
		}
	}
	r.Start = rapid.IntRange(0, n-1).Draw(t, "start")
	np := len(r.Cuts)
	if np < 2 {
		np = 1
	}
	for i := 0; i < np; i++ {
		r.Rev = append(r.Rev, rapid.Bool().Draw(t, "rev"))
	}
}

func genCase(t *rapid.T) Case {
	c := Case{RelType: rapid.SampledFrom([]string{"multipolygon", "multipolygon", "boundary"}).Draw(t, "type")}
	nout := rapid.IntRange(1, 4).Draw(t, "nout")
	family := rapid.IntRange(0, 3).Draw(t, "family")
	grid := family <= 1
	c.Tiny = family == 1
	for p := 0; p < nout; p++ {
		if grid {
			x0, y0 := 10+p*40, 10+rapid.IntRange(0, 3).Draw(t, "yoff")
			w, h := rapid.IntRange(14, 20).Draw(t, "w"), rapid.IntRange(8, 12).Draw(t, "h")
			o := Ring{Pts: gridRing(t, x0, y0, w, h, true), Outer: true, Poly: p}
			genCuts(t, &o)
			c.Rings = append(c.Rings, o)
			nh := rapid.IntRange(0, 3).Draw(t, "nh")
			for k := 0; k < nh; k++ {
				hx := x0 + 1 + k*4
				hy := y0 + rapid.IntRange(1, h-4).Draw(t, "hy")
				hr := Ring{Pts: gridRing(t, hx, hy, rapid.IntRange(1, 3).Draw(t, "hw"), rapid.IntRange(1, 3).Draw(t, "hh"), false), Poly: p}
				genCuts(t, &hr)
				c.Rings = append(c.Rings, hr)
			}
			continue
		}
		cx, cy := 20+float64(p)*30, 20.0
		o := Ring{Pts: jitterRing(t, cx, cy, 10, rapid.IntRange(4, 12).Draw(t, "n"), float64(rapid.IntRange(0, 628).Draw(t, "phase"))/100), Outer: true, Poly: p}
		genCuts(t, &o)
		c.Rings = append(c.Rings, o)
		nh := rapid.IntRange(0, 3).Draw(t, "nh")
		for k := 0; k < nh; k++ {
			hx := cx - 3 + 3*float64(k)
			hr := Ring{Pts: jitterRing(t, hx, cy, 1, rapid.IntRange(3, 7).Draw(t, "hn"), float64(rapid.IntRange(0, 628).Draw(t, "hphase"))/100), Poly: p}
			genCuts(t, &hr)
			c.Rings = append(c.Rings, hr)
		}
	}
	np := 0
	for i := range c.Rings {
		if len(c.Rings[i].Cuts) >= 2 {
			np += len(c.Rings[i].Cuts)
		} else {
			np++
		}
	}
	idx := make([]int, np)
	for i := range idx {
		idx[i] = i
	}
	c.Order = rapid.Permutation(idx).Draw(t, "order")
	c.Annotated = rapid.Bool().Draw(t, "annotated")
	c.Extras = rapid.IntRange(0, 7).Draw(t, "extras")
	c.NodeShuffle = rapid.IntRange(0, 50).Draw(t, "nodeShuffle")
	c.RelTagged = rapid.Bool().Draw(t, "relTagged")
	if c.Tiny {
		// the same integer-grid shapes in units of the 1e-7 OSM coordinate
		// step, placed at real-world locations far from lon=0/lat=0.
		off := rapid.SampledFrom([][2]int64{{-1224000000, 377000000}, {134000000, 525000000}, {1799000000, 850000000}, {-700000000, -330000000}, {1000, 1000}}).Draw(t, "offset")
		for ri := range c.Rings {
			for i, p := range c.Rings[ri].Pts {
				c.Rings[ri].Pts[i] = P{float64(off[0]+int64(p[0])) / 1e7, float64(off[1]+int64(p[1])) / 1e7}
			}
		}
	}
	return c
}

func TestMultipolygon(t *testing.T) {
	harness.Run(t, harness.Spec[Case]{
		Name: "multipolygon", N: 5000,
		Rule:     "ground truth: 1..4 disjoint simple outer rings (radially jittered polygons on a 1e-5 grid, or - one case in four each - rectangles on integer coordinates with extra edge vertices so that hole vertices share latitudes with outer vertices, and the same shapes in units of the 1e-7 degree coordinate step placed at San Francisco / Berlin / (179.9,85) / (-70,-33) / next to the origin, so that holes are 1-3 steps across and neighbouring vertices one step apart) with 0..3 disjoint holes strictly inside each; every ring cut at an arbitrary vertex subset, pieces independently reversed, members permuted, unrelated node/relation/other-role way members interleaved, node list rotated/reversed; type multipolygon or boundary; each case is converted in all 15 combinations of {coordinates from node objects, from annotated way nodes, mixed per way node with node objects present} x {no orientation annotations, annotations produced by annotate.Relations, ground-truth annotations, ground-truth annotations on two members in three only, two relations over the same ways in one data set - the second with reversed member order and annotations -}; a two-version relation history whose member ways all change direction between the versions is annotated in one call (each version expects the marks of its own way versions); oracle = exactly one polygon feature whose polygons equal the ground truth as a set of (outer, set of holes) with rings compared as canonical cyclic sequences, closed rings, CCW outers / CW inners by shoelace, and Member.Orientation after annotate.Relations == direction of the piece; non-trivial = some ring cut into >=2 pieces with a reversed piece",
		Gen:      genCase,
		Check:    check,
		Classify: classify,
		Describe: func(c Case) any {
			var rs []map[string]any
			for _, r := range c.Rings {
				rs = append(rs, map[string]any{"outer": r.Outer, "poly": r.Poly, "vertices": len(r.Pts), "cuts": r.Cuts, "reversed": r.Rev})
			}
			return map[string]any{"rings": rs, "type": c.RelType, "extras": c.Extras, "order": c.Order}
		},
		Floors: map[string]float64{"multi-outer": 0.3, "holes": 0.4, "split-with-reversed-piece": 0.5},
	})
}
