// Package c13 decides C13: annotating an osmChange yields the exact old/new
// diff for every element.
package c13

import (
	"context"
	"errors"
	"fmt"
	"testing"
	"time"

	"github.com/paulmach/osm"
	"github.com/paulmach/osm/annotate"
	"pgregory.net/rapid"

	"verif/internal/harness"
)

func TestMain(m *testing.M) { harness.Main(m, "C13") }

type Elem struct {
	Kind    int // 0 node, 1 way, 2 relation
	ID      int64
	Version int
	Visible bool // value before the call (must be overwritten)
}

type Hist struct {
	Kind     int
	ID       int64
	Missing  bool  // no entry in the datasource at all
	Versions []int // stored order; may be unsorted, have gaps, later versions, duplicates; empty = present but empty
}

type Case struct {
	Create, Modify, Delete          []Elem
	NilCreate, NilModify, NilDelete bool // the block pointer is nil instead of an empty OSM
	Hists                           []Hist
	Ignore                          bool
	// OtherOpts: options Change does not document as having an effect:
	// bit 0 IgnoreInconsistency(true), bit 1 Threshold(1h), bit 2 a ChildFilter
	// rejecting everything.
	OtherOpts int
	// FailAt > 0: the data source fails with a backend error (not a not-found
	// error) for the history of the FailAt-th (1-based, modulo) modified or
	// deleted element.
	FailAt int
	// IgnoreFirst: IgnoreMissingChildren(!Ignore) is passed first and
	// IgnoreMissingChildren(Ignore) after it: the later option decides.
	IgnoreFirst bool
	// VerBase is added to every version number (elements and histories):
	// versions beyond 16 bits are ordinary integers here.
	VerBase int
	// ViaChange: the history data source is not filled by hand but obtained
	// from (*osm.Change).HistoryDatasource() of a change that carries the
	// history versions spread over its create, modify and delete sections (only
	// when no history is present-but-empty, which that constructor cannot express).
	ViaChange bool
}

var errBackend = errors.New("c13: injected backend failure")

// faultyDS fails for one feature with an error NotFound does not recognise.
type faultyDS struct {
	*osm.HistoryDatasource
	fail osm.FeatureID
}

func (d *faultyDS) NodeHistory(ctx context.Context, id osm.NodeID) (osm.Nodes, error) {
	if id.FeatureID() == d.fail {
		return nil, errBackend
	}
	return d.HistoryDatasource.NodeHistory(ctx, id)
}

func (d *faultyDS) WayHistory(ctx context.Context, id osm.WayID) (osm.Ways, error) {
	if id.FeatureID() == d.fail {
		return nil, errBackend
	}
	return d.HistoryDatasource.WayHistory(ctx, id)
}

func (d *faultyDS) RelationHistory(ctx context.Context, id osm.RelationID) (osm.Relations, error) {
	if id.FeatureID() == d.fail {
		return nil, errBackend
	}
	return d.HistoryDatasource.RelationHistory(ctx, id)
}

type key struct {
	kind int
	id   int64
}

func build(es []Elem, isNil bool) (*osm.OSM, []osm.Element) {
	if isNil && len(es) == 0 {
		return nil, nil
	}
	o := &osm.OSM{}
	var order []osm.Element
	for k := 0; k < 3; k++ {
		for _, e := range es {
			if e.Kind != k {
				continue
			}
			switch k {
			case 0:
				n := &osm.Node{ID: osm.NodeID(e.ID), Version: e.Version, Visible: e.Visible, Lat: 1, Lon: 2}
				o.Nodes = append(o.Nodes, n)
				order = append(order, n)
			case 1:
				w := &osm.Way{ID: osm.WayID(e.ID), Version: e.Version, Visible: e.Visible}
				o.Ways = append(o.Ways, w)
				order = append(order, w)
			case 2:
				r := &osm.Relation{ID: osm.RelationID(e.ID), Version: e.Version, Visible: e.Visible}
				o.Relations = append(o.Relations, r)
				order = append(order, r)
			}
		}
	}
	return o, order
}

func single(o *osm.OSM) (osm.Element, int) {
	if o == nil {
		return nil, 0
	}
	n := len(o.Nodes) + len(o.Ways) + len(o.Relations) + len(o.Changesets) + len(o.Notes) + len(o.Users)
	switch {
	case len(o.Nodes) == 1:
		return o.Nodes[0], n
	case len(o.Ways) == 1:
		return o.Ways[0], n
	case len(o.Relations) == 1:
		return o.Relations[0], n
	}
	return nil, n
}

// versionOf reads the version field itself (an ElementID keeps 16 bits only).
func versionOf(e osm.Element) int {
	switch x := e.(type) {
	case *osm.Node:
		return x.Version
	case *osm.Way:
		return x.Version
	case *osm.Relation:
		return x.Version
	}
	return -1
}

func visible(e osm.Element) bool {
	switch x := e.(type) {
	case *osm.Node:
		return x.Visible
	case *osm.Way:
		return x.Visible
	case *osm.Relation:
		return x.Visible
	}
	return false
}

func check(c Case) error {
	ds := &osm.HistoryDatasource{Nodes: map[osm.NodeID]osm.Nodes{}, Ways: map[osm.WayID]osm.Ways{}, Relations: map[osm.RelationID]osm.Relations{}}
	hist := map[key][]int{}
	present := map[key]bool{}
	for _, h := range c.Hists {
		k := key{h.Kind, h.ID}
		if h.Missing || present[k] {
			continue
		}
		present[k] = true
		hist[k] = h.Versions
		switch h.Kind {
		case 0:
			l := osm.Nodes{}
			for i, v := range h.Versions {
				l = append(l, &osm.Node{ID: osm.NodeID(h.ID), Version: v, Visible: i%2 == 0, Tags: osm.Tags{{Key: "slot", Value: fmt.Sprint(i)}}})
			}
			ds.Nodes[osm.NodeID(h.ID)] = l
		case 1:
			l := osm.Ways{}
			for i, v := range h.Versions {
				l = append(l, &osm.Way{ID: osm.WayID(h.ID), Version: v, Visible: i%2 == 0, Tags: osm.Tags{{Key: "slot", Value: fmt.Sprint(i)}}})
			}
			ds.Ways[osm.WayID(h.ID)] = l
		case 2:
			l := osm.Relations{}
			for i, v := range h.Versions {
				l = append(l, &osm.Relation{ID: osm.RelationID(h.ID), Version: v, Visible: i%2 == 0, Tags: osm.Tags{{Key: "slot", Value: fmt.Sprint(i)}}})
			}
			ds.Relations[osm.RelationID(h.ID)] = l
		}
	}
	if c.ViaChange {
		ok := true
		for k, vs := range hist {
			if present[k] && len(vs) == 0 {
				ok = false
			}
		}
		if ok {
			hc := &osm.Change{Create: &osm.OSM{}, Modify: &osm.OSM{}, Delete: &osm.OSM{}}
			sec := []*osm.OSM{hc.Create, hc.Modify, hc.Delete}
			i := 0
			for kind := 0; kind < 3; kind++ {
				for id := int64(1); id <= 6; id++ {
					switch kind {
					case 0:
						for _, n := range ds.Nodes[osm.NodeID(id)] {
							sec[i%3].Nodes = append(sec[i%3].Nodes, n)
							i++
						}
					case 1:
						for _, w := range ds.Ways[osm.WayID(id)] {
							sec[i%3].Ways = append(sec[i%3].Ways, w)
							i++
						}
					case 2:
						for _, r := range ds.Relations[osm.RelationID(id)] {
							sec[i%3].Relations = append(sec[i%3].Relations, r)
							i += 2 // relations of one id land in different sections than their neighbours
						}
					}
				}
			}
			ds = hc.HistoryDatasource()
		}
	}
	change := &osm.Change{}
	var createOrder, modifyOrder, deleteOrder []osm.Element
	change.Create, createOrder = build(c.Create, c.NilCreate)
	change.Modify, modifyOrder = build(c.Modify, c.NilModify)
	change.Delete, deleteOrder = build(c.Delete, c.NilDelete)

	// reference
	type want struct {
		typ     osm.ActionType
		elem    osm.Element
		prevVer int
	}
	var wants []want
	var wantErr *osm.FeatureID
	for _, e := range createOrder {
		wants = append(wants, want{typ: osm.ActionCreate, elem: e})
	}
	prev := func(e osm.Element) (int, bool) {
		eid := e.ElementID()
		k := key{map[osm.Type]int{osm.TypeNode: 0, osm.TypeWay: 1, osm.TypeRelation: 2}[eid.Type()], eid.Ref()}
		if !present[k] {
			return 0, false
		}
		best, ok := -1, false
		for _, v := range hist[k] {
			if v < versionOf(e) && v > best {
				best, ok = v, true
			}
		}
		return best, ok
	}
	for _, blk := range []struct {
		order []osm.Element
		typ   osm.ActionType
	}{{modifyOrder, osm.ActionModify}, {deleteOrder, osm.ActionDelete}} {
		for _, e := range blk.order {
			if wantErr != nil {
				break
			}
			pv, ok := prev(e)
			switch {
			case ok:
				wants = append(wants, want{typ: blk.typ, elem: e, prevVer: pv})
			case c.Ignore:
				wants = append(wants, want{typ: osm.ActionCreate, elem: e})
			default:
				id := e.FeatureID()
				wantErr = &id
			}
		}
	}

	var opts []annotate.Option
	if c.IgnoreFirst {
		opts = append(opts, annotate.IgnoreMissingChildren(!c.Ignore), annotate.IgnoreMissingChildren(c.Ignore))
	} else if c.Ignore {
		opts = append(opts, annotate.IgnoreMissingChildren(true))
	}
	if c.OtherOpts&1 != 0 {
		opts = append(opts, annotate.IgnoreInconsistency(true))
	}
	if c.OtherOpts&2 != 0 {
		opts = append(opts, annotate.Threshold(time.Hour))
	}
	if c.OtherOpts&4 != 0 {
		opts = append(opts, annotate.ChildFilter(func(osm.FeatureID) bool { return false }))
	}
	var src osm.HistoryDatasourcer = ds
	if changed := append(append([]osm.Element{}, modifyOrder...), deleteOrder...); c.FailAt > 0 && len(changed) > 0 {
		src = &faultyDS{HistoryDatasource: ds, fail: changed[(c.FailAt-1)%len(changed)].FeatureID()}
	}
	diff, err := annotate.Change(context.Background(), change, src, opts...)
	if errors.Is(err, errBackend) {
		// the injected failure surfaced. Anything else - success included - is
		// judged as usual: the element's history exists, so a swallowed failure
		// shows up as a wrong action.
		if src == osm.HistoryDatasourcer(ds) {
			return harness.Failf("C13/unexpected-error", "backend error without an injected fault: %v", err)
		}
		return nil
	}
	if wantErr != nil {
		if err == nil {
			return harness.Failf("C13/missing-error", "element %v has no earlier version in its history (ignore=%v) but Change succeeded", *wantErr, c.Ignore)
		}
		e, ok := err.(*annotate.NoVisibleChildError)
		if !ok {
			return harness.Failf("C13/error-type", "error is %T (%v), want *annotate.NoVisibleChildError", err, err)
		}
		if e.ID != *wantErr {
			return harness.Failf("C13/error-id", "error names %v, the first element without a predecessor is %v", e.ID, *wantErr)
		}
		return nil
	}
	if err != nil {
		return harness.Failf("C13/unexpected-error", "Change failed: %v (ignore=%v)", err, c.Ignore)
	}
	if diff == nil {
		return harness.Failf("C13/nil-diff", "nil diff without error")
	}
	if len(diff.Actions) != len(wants) {
		return harness.Failf("C13/action-count", "%d actions for %d changed elements", len(diff.Actions), len(wants))
	}
	for i, w := range wants {
		a := diff.Actions[i]
		if a.Type != w.typ {
			return harness.Failf("C13/action-type", "action %d for %v is %q, want %q", i, w.elem.ElementID(), a.Type, w.typ)
		}
		if w.typ == osm.ActionCreate {
			e, n := single(a.OSM)
			if n != 1 || e != w.elem || a.Old != nil || a.New != nil {
				return harness.Failf("C13/create-shape", "create action %d does not hold exactly element %v", i, w.elem.ElementID())
			}
			if !visible(e) {
				return harness.Failf("C13/create-visible", "create action %d (%v) is not marked visible", i, w.elem.ElementID())
			}
			continue
		}
		if a.OSM != nil {
			return harness.Failf("C13/update-shape", "%s action %d carries a bare element", w.typ, i)
		}
		n, cn := single(a.New)
		o, co := single(a.Old)
		if cn != 1 || co != 1 || n != w.elem {
			return harness.Failf("C13/update-shape", "%s action %d: new/old do not hold exactly one element each (new is the changed element: %v)", w.typ, i, n == w.elem)
		}
		if o.ElementID().FeatureID() != w.elem.FeatureID() || versionOf(o) != w.prevVer {
			return harness.Failf("C13/wrong-old", "%s of %v paired with old %v, want version %d (history %v)", w.typ, w.elem.ElementID(), o.ElementID(), w.prevVer, histOf(hist, w.elem))
		}
		if !fromHistory(ds, o) {
			return harness.Failf("C13/old-not-from-history", "old state of %v is not an entry of the history", w.elem.ElementID())
		}
		if visible(n) != (w.typ == osm.ActionModify) {
			return harness.Failf("C13/new-visible", "%s of %v: new.Visible = %v", w.typ, w.elem.ElementID(), visible(n))
		}
	}
	return nil
}

func histOf(h map[key][]int, e osm.Element) []int {
	eid := e.ElementID()
	return h[key{map[osm.Type]int{osm.TypeNode: 0, osm.TypeWay: 1, osm.TypeRelation: 2}[eid.Type()], eid.Ref()}]
}

func fromHistory(ds *osm.HistoryDatasource, o osm.Element) bool {
	switch x := o.(type) {
	case *osm.Node:
		for _, n := range ds.Nodes[x.ID] {
			if n == x {
				return true
			}
		}
	case *osm.Way:
		for _, n := range ds.Ways[x.ID] {
			if n == x {
				return true
			}
		}
	case *osm.Relation:
		for _, n := range ds.Relations[x.ID] {
			if n == x {
				return true
			}
		}
	}
	return false
}

func classify(c Case) (bool, []string) {
	hist := map[key][]int{}
	for _, h := range c.Hists {
		if !h.Missing {
			if _, ok := hist[key{h.Kind, h.ID}]; !ok {
				hist[key{h.Kind, h.ID}] = h.Versions
			}
		}
	}
	nt := false
	var cl []string
	for _, e := range append(append([]Elem{}, c.Modify...), c.Delete...) {
		vs, ok := hist[key{e.Kind, e.ID}]
		if !ok {
			cl = append(cl, "missing-history")
			continue
		}
		sorted, later := true, false
		for i, v := range vs {
			if i > 0 && v < vs[i-1] {
				sorted = false
			}
			if v >= e.Version {
				later = true
			}
		}
		if !sorted || later {
			nt = true
		}
		if !sorted {
			cl = append(cl, "unsorted-history")
		}
		if later {
			cl = append(cl, "later-or-own-version-present")
		}
	}
	if c.Ignore {
		cl = append(cl, "ignore-missing")
	}
	if c.OtherOpts != 0 {
		cl = append(cl, "unrelated-options")
	}
	if c.ViaChange {
		cl = append(cl, "datasource-from-change")
	}
	if c.FailAt > 0 && len(c.Modify)+len(c.Delete) > 0 {
		cl = append(cl, "datasource-fault")
	}
	return nt, dedup(cl)
}

func dedup(in []string) []string {
	seen := map[string]bool{}
	var out []string
	for _, s := range in {
		if !seen[s] {
			seen[s] = true
			out = append(out, s)
		}
	}
	return out
}

func genElems(t *rapid.T, label string) []Elem {
	n := rapid.IntRange(0, 5).Draw(t, label+"n")
	var out []Elem
	for i := 0; i < n; i++ {
		out = append(out, Elem{Kind: rapid.IntRange(0, 2).Draw(t, label+"kind"), ID: int64(rapid.IntRange(1, 6).Draw(t, label+"id")),
			Version: rapid.IntRange(1, 9).Draw(t, label+"ver"), Visible: rapid.Bool().Draw(t, label+"vis")})
	}
	return out
}

func TestChange(t *testing.T) {
	harness.Run(t, harness.Spec[Case]{
		Name: "change", N: 20000,
		Rule: "changes with 0..5 created, modified and deleted elements each (nodes, ways, relations over a small id space so ids collide; nil or empty blocks) x histories per element (held in a hand-filled osm.HistoryDatasource or, one case in four, obtained from (*osm.Change).HistoryDatasource() of a change carrying the versions in its three sections): missing entirely, present but empty, unsorted, with version gaps, with the element's own and later versions, duplicates; with/without IgnoreMissingChildren (a quarter passing the opposite value first: the later option decides), a quarter with all version numbers shifted to around 2^16, 2^17 or 2^20 so that histories straddle those boundaries; a third of the cases add options Change does not react to (IgnoreInconsistency, Threshold, ChildFilter); one case in eight injects a data source failure that is not a not-found error for one modified/deleted element (Change must return it; any other outcome is judged as usual); oracle = reference pairing (create->modify->delete, node->way->relation, old = greatest version below own taken from the history by pointer identity, visibility flags, typed error naming the first element without predecessor, create fallback when ignoring); non-trivial = a modified/deleted element whose history is unsorted or holds its own/later versions",
		Gen: func(t *rapid.T) Case {
			c := Case{Create: genElems(t, "c"), Modify: genElems(t, "m"), Delete: genElems(t, "d"), Ignore: rapid.Bool().Draw(t, "ignore"),
				NilCreate: rapid.Bool().Draw(t, "nc"), NilModify: rapid.Bool().Draw(t, "nm"), NilDelete: rapid.Bool().Draw(t, "nd")}
			for kind := 0; kind < 3; kind++ {
				for id := int64(1); id <= 6; id++ {
					h := Hist{Kind: kind, ID: id}
					switch rapid.IntRange(0, 9).Draw(t, "hmode") {
					case 0:
						h.Missing = true
					case 1:
						// present, empty
					default:
						nv := rapid.IntRange(1, 6).Draw(t, "nv")
						for i := 0; i < nv; i++ {
							h.Versions = append(h.Versions, rapid.IntRange(1, 10).Draw(t, "hv"))
						}
					}
					c.Hists = append(c.Hists, h)
				}
			}
			if rapid.IntRange(0, 2).Draw(t, "other?") == 0 {
				c.OtherOpts = rapid.IntRange(1, 7).Draw(t, "otherOpts")
			}
			if rapid.IntRange(0, 7).Draw(t, "fault?") == 0 {
				c.FailAt = rapid.IntRange(1, 10).Draw(t, "failAt")
			}
			c.IgnoreFirst = rapid.IntRange(0, 3).Draw(t, "ignoreFirst") == 0
			c.ViaChange = rapid.IntRange(0, 3).Draw(t, "viaChange") == 0
			if rapid.IntRange(0, 3).Draw(t, "verBase?") == 0 {
				c.VerBase = rapid.SampledFrom([]int{65530, 65535, 131070, 1 << 20}).Draw(t, "verBase")
				for i := range c.Create {
					c.Create[i].Version += c.VerBase
				}
				for i := range c.Modify {
					c.Modify[i].Version += c.VerBase
				}
				for i := range c.Delete {
					c.Delete[i].Version += c.VerBase
				}
				for i := range c.Hists {
					for j := range c.Hists[i].Versions {
						// half of the history stays below the base: histories that
						// straddle a 16-bit boundary
						if (i+j)%2 == 0 {
							c.Hists[i].Versions[j] += c.VerBase
						} else {
							c.Hists[i].Versions[j] += c.VerBase - 12
						}
					}
				}
			}
			return c
		},
		Check:    check,
		Classify: classify,
		Floors:   map[string]float64{"unsorted-history": 0.3, "missing-history": 0.1},
	})
}
