// Package c01 decides C01: a PBF scan yields exactly the encoded header and
// elements, field for field.
package c01

import (
	"bytes"
	"context"
	"fmt"
	"io"
	"strings"
	"testing"

	"github.com/paulmach/osm"
	"github.com/paulmach/osm/osmpbf"
	"pgregory.net/rapid"

	"verif/internal/harness"
	"verif/internal/pbfgen"
	"verif/internal/pbfscan"
)

func TestMain(m *testing.M) { harness.Main(m, "C01") }

type Case struct {
	File  *pbfgen.File
	Procs int
	// HeaderFirst: call Header() before the first Scan.
	HeaderFirst bool
	// Reader: 0 bytes.Reader; 1 returns the final bytes together with io.EOF
	// (allowed by the io.Reader contract); 2 hands out 1..7 byte pieces; 3 both.
	Reader int
	NilCtx bool // the scanner is created with a nil context
}

// pieceReader is an io.Reader over data with configurable piece size and
// end-of-stream behaviour.
type pieceReader struct {
	data    []byte
	piece   int
	dataEOF bool
}

func (r *pieceReader) Read(p []byte) (int, error) {
	if len(r.data) == 0 {
		return 0, io.EOF
	}
	n := len(p)
	if r.piece > 0 && n > r.piece {
		n = r.piece
	}
	if n > len(r.data) {
		n = len(r.data)
	}
	copy(p, r.data[:n])
	r.data = r.data[n:]
	if len(r.data) == 0 && r.dataEOF {
		return n, io.EOF
	}
	return n, nil
}

func (c *Case) reader(data []byte) io.Reader {
	switch c.Reader {
	case 1:
		return &pieceReader{data: data, dataEOF: true}
	case 2:
		return &pieceReader{data: data, piece: 1 + len(data)%7}
	case 3:
		return &pieceReader{data: data, piece: 1 + len(data)%7, dataEOF: true}
	}
	return bytes.NewReader(data)
}

func check(c Case) error {
	enc := c.File.Encode()
	want, _ := c.File.Expected()
	ctx := context.Background()
	if c.NilCtx {
		ctx = nil // New documents a nil context as context.Background()
	}
	s := osmpbf.New(ctx, c.reader(enc.Data), c.Procs)
	defer s.Close()
	if c.HeaderFirst {
		h, err := s.Header()
		if err != nil {
			return harness.Failf("C01/header-error", "Header() on a valid file: %v", err)
		}
		if d := pbfgen.DiffHeader(h, c.File.Header.Expected()); d != "" {
			return harness.Failf("C01/header-field", "header: %s", d)
		}
	}
	var got []osm.Object
	for s.Scan() {
		got = append(got, s.Object())
	}
	if err := s.Err(); err != nil {
		return harness.Failf("C01/scan-error", "scan of a valid file failed after %d of %d objects: %v", len(got), len(want), err)
	}
	if d := pbfgen.DiffSeq(got, want); d != "" {
		return harness.Failf("C01/object-field", "%s", d)
	}
	// after a completed scan Header() hands back the scanner's stored io.EOF as
	// its error; the statement claims nothing about that, only the value.
	h, _ := s.Header()
	if d := pbfgen.DiffHeader(h, c.File.Header.Expected()); d != "" {
		return harness.Failf("C01/header-field", "header: %s", d)
	}
	// the elements are independent values: appending to the tag, node or member
	// list of one returned object changes no other returned object
	if d := pbfgen.AppendIndependence(got); d != "" {
		return harness.Failf("C01/results-share-memory", "%s", d)
	}
	return nil
}

func classify(c Case) (bool, []string) {
	cl := c.File.Classes()
	nt := false
	for _, l := range cl {
		if l == "neighbour-blocks-differ" || l == "non-default-granularity-or-offset" || l == "raw-blob" {
			nt = true
		}
	}
	if c.Procs > 1 {
		cl = append(cl, "procs>1")
	}
	return nt && len(c.File.Blocks) > 0, cl
}

func TestScan(t *testing.T) {
	harness.Run(t, harness.Spec[Case]{
		Name: "scan", N: 1500,
		Rule: "files from the independent PBF model/encoder: header with each field present/absent, 0..6 data blocks (2/3 of the successors derived from their predecessor by toggling optional parts), dense/way/relation/changeset groups, every optional column/field independently present, granularity/offsets/date granularity absent or drawn, raw or zlib blobs, shuffled string tables, rare blocks of 200-9000 elements, decoder count in {1,2,3,4,7,16,32}; oracle = the objects the format formulas define for the model, compared field for field (coordinates within 1e-10) in file order, plus Header(); non-trivial = >=1 data block and (neighbouring blocks differ in an optional part, or non-default granularity/offset, or a raw blob)",
		Gen: func(t *rapid.T) Case {
			return Case{
				File:        pbfgen.GenFile(t, pbfgen.Opt{MinBlocks: 0, MaxBlocks: 6, Big: true}),
				Procs:       rapid.SampledFrom([]int{1, 2, 3, 4, 7, 16, 32}).Draw(t, "procs"),
				HeaderFirst: rapid.Bool().Draw(t, "headerFirst"),
				Reader:      rapid.SampledFrom([]int{0, 0, 1, 2, 3}).Draw(t, "reader"),
				NilCtx:      rapid.IntRange(0, 5).Draw(t, "nilCtx") == 0,
			}
		},
		Check:    check,
		Classify: classify,
		Describe: func(c Case) any {
			m := c.File.Summary()
			m["procs"] = c.Procs
			return m
		},
		Floors: map[string]float64{
			"raw-blob": 0.10, "absent-after-present:version": 0.02, "absent-after-present:timestamp": 0.02,
			"absent-after-present:changeset": 0.02, "absent-after-present:uid": 0.02, "absent-after-present:user": 0.02,
			"absent-after-present:visible": 0.02, "absent-after-present:keyvals": 0.01,
		},
		Inflight: true,
	})
}

// Blobs between the recommended 16 MiB and the hard 32 MiB limit are valid
// ("should be less than 16 MiB, must be less than 32 MiB"). The size is reached
// with one large unused string-table entry, so the block still has few elements.
type BigCase struct {
	File    *pbfgen.File
	Procs   int
	Padding int // bytes of the unused string-table entry of block 0
}

func TestBigBlobs(t *testing.T) {
	sizes := []int{16<<20 - 4096, 16 << 20, 16<<20 + 4096, 24 << 20, 32<<20 - 65536}
	harness.Run(t, harness.Spec[BigCase]{
		Name: "big-blobs", N: 6,
		Rule: "valid files whose first data block is padded with one large unused string-table entry so that its raw blob is just below 16 MiB, just above it, 24 MiB or just below the 32 MiB limit (raw or zlib), followed by ordinary blocks; same field-for-field oracle; non-trivial = blob above 16 MiB",
		Gen: func(t *rapid.T) BigCase {
			return BigCase{File: pbfgen.GenFile(t, pbfgen.Opt{MinBlocks: 1, MaxBlocks: 3, Small: true, NonEmpty: true}),
				Procs: rapid.SampledFrom([]int{1, 3}).Draw(t, "procs"), Padding: rapid.SampledFrom(sizes).Draw(t, "padding")}
		},
		Check: func(c BigCase) error {
			f := *c.File
			b0 := *f.Blocks[0]
			b0.ExtraStrings = append(append([]string{}, b0.ExtraStrings...), strings.Repeat("x", c.Padding))
			f.Blocks = append([]*pbfgen.Block{&b0}, f.Blocks[1:]...)
			return check(Case{File: &f, Procs: c.Procs})
		},
		Classify: func(c BigCase) (bool, []string) { return c.Padding >= 16<<20, nil },
		Describe: func(c BigCase) any {
			return map[string]any{"padding": c.Padding, "procs": c.Procs, "blocks": len(c.File.Blocks)}
		},
		Key: func(c BigCase) []byte {
			return []byte(fmt.Sprint(c.Padding, c.Procs, len(c.File.Blocks), c.File.Blocks[0].Zlib))
		},
		Inflight: true,
		NoReplay: true,
	})
}

// ---------------------------------------------------------------- another scanner alive at the same time

type TwoCase struct {
	A, B           *pbfgen.File
	ProcsA, ProcsB int
	StallBlock     int
	OneP           bool
}

func TestOtherScannerAlive(t *testing.T) {
	harness.Run(t, harness.Spec[TwoCase]{
		Name: "other-scanner-alive", N: 60,
		Rule: "the scan of file A does not depend on other scanners in the process: A's reader stalls one byte short of the end of a drawn data block while a second scanner reads file B to its end, then A finishes (half of the cases with GOMAXPROCS=1 and the collector off); oracle = both sequences equal their models; non-trivial = every case",
		Gen: func(t *rapid.T) TwoCase {
			return TwoCase{
				A:          pbfgen.GenFile(t, pbfgen.Opt{MinBlocks: 1, MaxBlocks: 5, NonEmpty: true}),
				B:          pbfgen.GenFile(t, pbfgen.Opt{MinBlocks: 1, MaxBlocks: 5, NonEmpty: true}),
				ProcsA:     rapid.SampledFrom([]int{1, 1, 2, 5}).Draw(t, "procsA"),
				ProcsB:     rapid.SampledFrom([]int{1, 1, 2, 5}).Draw(t, "procsB"),
				StallBlock: rapid.IntRange(0, 4).Draw(t, "stallBlock"),
				OneP:       rapid.Bool().Draw(t, "oneP"),
			}
		},
		Check: func(c TwoCase) error {
			encA, encB := c.A.Encode(), c.B.Encode()
			wantA, _ := c.A.Expected()
			wantB, _ := c.B.Expected()
			stall := encA.Blocks[c.StallBlock%len(encA.Blocks)].End - 1
			d, hang := pbfscan.Two(encA.Data, wantA, c.ProcsA, stall, encB.Data, wantB, c.ProcsB, c.OneP)
			if hang {
				return harness.Failf("C01/hang", "%s", d)
			}
			if d != "" {
				return harness.Failf("C01/other-scanner-alive", "%s", d)
			}
			return nil
		},
		Classify: func(c TwoCase) (bool, []string) { return true, nil },
		Describe: func(c TwoCase) any {
			return map[string]any{"blocks_a": len(c.A.Blocks), "blocks_b": len(c.B.Blocks), "procs_a": c.ProcsA, "procs_b": c.ProcsB, "stall_block": c.StallBlock, "one_p": c.OneP}
		},
		Inflight: true,
	})
}
