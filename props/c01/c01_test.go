// Package c01 decides C01: a PBF scan yields exactly the encoded header and
// elements, field for field.
package c01

import (
	"bytes"
	"context"
	"testing"

	"github.com/paulmach/osm"
	"github.com/paulmach/osm/osmpbf"
	"pgregory.net/rapid"

	"verif/internal/harness"
	"verif/internal/pbfgen"
)

func TestMain(m *testing.M) { harness.Main(m, "C01") }

type Case struct {
	File  *pbfgen.File
	Procs int
	// HeaderFirst: call Header() before the first Scan.
	HeaderFirst bool
}

func check(c Case) error {
	enc := c.File.Encode()
	want, _ := c.File.Expected()
	s := osmpbf.New(context.Background(), bytes.NewReader(enc.Data), c.Procs)
	defer s.Close()
	if c.HeaderFirst {
		h, err := s.Header()
		if err != nil {
			return harness.Failf("C01/header-error", "Header() on a valid file: %v", err)
		}
		if d := pbfgen.DiffHeader(h, c.File.Header.Expected()); d != "" {
			return harness.Failf("C01/header-field", "header: %s", d)
		}
	}
	var got []osm.Object
	for s.Scan() {
		got = append(got, s.Object())
	}
	if err := s.Err(); err != nil {
		return harness.Failf("C01/scan-error", "scan of a valid file failed after %d of %d objects: %v", len(got), len(want), err)
	}
	if d := pbfgen.DiffSeq(got, want); d != "" {
		return harness.Failf("C01/object-field", "%s", d)
	}
	// after a completed scan Header() hands back the scanner's stored io.EOF as
	// its error; the statement claims nothing about that, only the value.
	h, _ := s.Header()
	if d := pbfgen.DiffHeader(h, c.File.Header.Expected()); d != "" {
		return harness.Failf("C01/header-field", "header: %s", d)
	}
	return nil
}

func classify(c Case) (bool, []string) {
	cl := c.File.Classes()
	nt := false
	for _, l := range cl {
		if l == "neighbour-blocks-differ" || l == "non-default-granularity-or-offset" || l == "raw-blob" {
			nt = true
		}
	}
	if c.Procs > 1 {
		cl = append(cl, "procs>1")
	}
	return nt && len(c.File.Blocks) > 0, cl
}

func TestScan(t *testing.T) {
	harness.Run(t, harness.Spec[Case]{
		Name: "scan", N: 1500,
		Rule: "files from the independent PBF model/encoder: header with each field present/absent, 0..6 data blocks (2/3 of the successors derived from their predecessor by toggling optional parts), dense/way/relation/changeset groups, every optional column/field independently present, granularity/offsets/date granularity absent or drawn, raw or zlib blobs, shuffled string tables, rare blocks of 200-9000 elements, decoder count in {1,2,3,4,7,16,32}; oracle = the objects the format formulas define for the model, compared field for field (coordinates within 1e-10) in file order, plus Header(); non-trivial = >=1 data block and (neighbouring blocks differ in an optional part, or non-default granularity/offset, or a raw blob)",
		Gen: func(t *rapid.T) Case {
			return Case{
				File:        pbfgen.GenFile(t, pbfgen.Opt{MinBlocks: 0, MaxBlocks: 6, Big: true}),
				Procs:       rapid.SampledFrom([]int{1, 2, 3, 4, 7, 16, 32}).Draw(t, "procs"),
				HeaderFirst: rapid.Bool().Draw(t, "headerFirst"),
			}
		},
		Check:    check,
		Classify: classify,
		Describe: func(c Case) any {
			m := c.File.Summary()
			m["procs"] = c.Procs
			return m
		},
		Floors: map[string]float64{
			"raw-blob": 0.10, "absent-after-present:version": 0.02, "absent-after-present:timestamp": 0.02,
			"absent-after-present:changeset": 0.02, "absent-after-present:uid": 0.02, "absent-after-present:user": 0.02,
			"absent-after-present:visible": 0.02, "absent-after-present:keyvals": 0.01,
		},
		Inflight: true,
	})
}
