// Package c10 decides C10: packed object/element/feature ids are lossless,
// ordered and parseable.
package c10

import (
	"fmt"
	"regexp"
	"sort"
	"strconv"
	"strings"
	"testing"

	"github.com/paulmach/osm"
	"pgregory.net/rapid"

	"verif/internal/harness"
)

func TestMain(m *testing.M) { harness.Main(m, "C10") }

const (
	maxRef = int64(1)<<40 - 1
	maxVer = int64(1)<<16 - 1
)

// kinds in the order the statement ranks the three element kinds; the other
// kinds have no cross-kind order claim.
var elementKinds = []osm.Type{osm.TypeNode, osm.TypeWay, osm.TypeRelation}
var plainKinds = []osm.Type{osm.TypeChangeset, osm.TypeNote, osm.TypeUser}

func rank(t osm.Type) int {
	switch t {
	case osm.TypeNode:
		return 0
	case osm.TypeWay:
		return 1
	case osm.TypeRelation:
		return 2
	}
	return -1
}

// boundary values of [0,max]: 0,1,2,max-1,max and 2^b-1, 2^b, 2^b+1 for every b.
func boundary(max int64) []int64 {
	m := map[int64]bool{0: true, 1: true, 2: true, max: true, max - 1: true}
	for b := uint(0); (int64(1) << b) <= max; b++ {
		for _, d := range []int64{-1, 0, 1} {
			v := (int64(1) << b) + d
			if v >= 0 && v <= max {
				m[v] = true
			}
		}
	}
	out := make([]int64, 0, len(m))
	for v := range m {
		out = append(out, v)
	}
	sort.Slice(out, func(i, j int) bool { return out[i] < out[j] })
	return out
}

type id3 struct {
	Kind osm.Type
	Ref  int64
	Ver  int64
}

// element ids built through every public constructor must agree.
func elementIDs(k id3) (osm.ElementID, error) {
	var viaID, viaElem osm.ElementID
	var fid osm.FeatureID
	v := int(k.Ver)
	switch k.Kind {
	case osm.TypeNode:
		viaID = osm.NodeID(k.Ref).ElementID(v)
		fid = osm.NodeID(k.Ref).FeatureID()
		n := &osm.Node{ID: osm.NodeID(k.Ref), Version: v}
		viaElem = n.ElementID()
		if n.FeatureID() != fid || n.ObjectID() != osm.NodeID(k.Ref).ObjectID(v) {
			return 0, fmt.Errorf("Node methods disagree with NodeID methods for %v", k)
		}
		if (osm.WayNode{ID: osm.NodeID(k.Ref), Version: v}).ElementID() != viaID || (osm.WayNode{ID: osm.NodeID(k.Ref)}).FeatureID() != fid {
			return 0, fmt.Errorf("WayNode ids disagree for %v", k)
		}
	case osm.TypeWay:
		viaID = osm.WayID(k.Ref).ElementID(v)
		fid = osm.WayID(k.Ref).FeatureID()
		w := &osm.Way{ID: osm.WayID(k.Ref), Version: v}
		viaElem = w.ElementID()
		if w.FeatureID() != fid || w.ObjectID() != osm.WayID(k.Ref).ObjectID(v) {
			return 0, fmt.Errorf("Way methods disagree with WayID methods for %v", k)
		}
	case osm.TypeRelation:
		viaID = osm.RelationID(k.Ref).ElementID(v)
		fid = osm.RelationID(k.Ref).FeatureID()
		r := &osm.Relation{ID: osm.RelationID(k.Ref), Version: v}
		viaElem = r.ElementID()
		if r.FeatureID() != fid || r.ObjectID() != osm.RelationID(k.Ref).ObjectID(v) {
			return 0, fmt.Errorf("Relation methods disagree with RelationID methods for %v", k)
		}
	}
	m := osm.Member{Type: k.Kind, Ref: k.Ref, Version: v}
	if m.ElementID() != viaID || m.FeatureID() != fid {
		return 0, fmt.Errorf("Member ids disagree for %v: %v %v", k, m.ElementID(), m.FeatureID())
	}
	tf, err := k.Kind.FeatureID(k.Ref)
	if err != nil || tf != fid {
		return 0, fmt.Errorf("Type.FeatureID(%v) = %v, %v; want %v", k, tf, err, fid)
	}
	if viaID != viaElem || fid.ElementID(v) != viaID {
		return 0, fmt.Errorf("constructors disagree for %v: %d %d %d", k, viaID, viaElem, fid.ElementID(v))
	}
	return viaID, nil
}

func checkElement(k id3) error {
	e, err := elementIDs(k)
	if err != nil {
		return harness.Failf("C10/constructors-disagree", "%v", err)
	}
	v := int(k.Ver)
	f := e.FeatureID()
	o := e.ObjectID()
	if e.Type() != k.Kind || e.Ref() != k.Ref || e.Version() != v {
		return harness.Failf("C10/element-roundtrip", "ElementID of %+v decodes to (%v,%d,%d)", k, e.Type(), e.Ref(), e.Version())
	}
	if f.Type() != k.Kind || f.Ref() != k.Ref {
		return harness.Failf("C10/feature-roundtrip", "FeatureID of %+v decodes to (%v,%d)", k, f.Type(), f.Ref())
	}
	if o.Type() != k.Kind || o.Ref() != k.Ref || o.Version() != v {
		return harness.Failf("C10/object-roundtrip", "ObjectID of %+v decodes to (%v,%d,%d)", k, o.Type(), o.Ref(), o.Version())
	}
	if f.ElementID(v) != e || f.ObjectID(v) != o || osm.ObjectID(e) != o {
		return harness.Failf("C10/conversions", "conversions disagree for %+v", k)
	}
	switch k.Kind {
	case osm.TypeNode:
		if int64(e.NodeID()) != k.Ref || int64(f.NodeID()) != k.Ref {
			return harness.Failf("C10/conversions", "NodeID() of %+v", k)
		}
	case osm.TypeWay:
		if int64(e.WayID()) != k.Ref || int64(f.WayID()) != k.Ref {
			return harness.Failf("C10/conversions", "WayID() of %+v", k)
		}
	case osm.TypeRelation:
		if int64(e.RelationID()) != k.Ref || int64(f.RelationID()) != k.Ref {
			return harness.Failf("C10/conversions", "RelationID() of %+v", k)
		}
	}
	// text round trip
	if pe, err := osm.ParseElementID(e.String()); err != nil || pe != e {
		return harness.Failf("C10/parse-roundtrip", "ParseElementID(%q) = %d, %v; want %d", e.String(), pe, err, e)
	}
	if po, err := osm.ParseObjectID(o.String()); err != nil || po != o {
		return harness.Failf("C10/parse-roundtrip", "ParseObjectID(%q) = %d, %v; want %d", o.String(), po, err, o)
	}
	if pf, err := osm.ParseFeatureID(f.String()); err != nil || pf != f {
		return harness.Failf("C10/parse-roundtrip", "ParseFeatureID(%q) = %d, %v; want %d", f.String(), pf, err, f)
	}
	// the documented textual shape
	want := fmt.Sprintf("%s/%d:%d", k.Kind, k.Ref, k.Ver)
	if k.Ver == 0 {
		want = fmt.Sprintf("%s/%d:-", k.Kind, k.Ref)
	}
	if e.String() != want || o.String() != want || f.String() != fmt.Sprintf("%s/%d", k.Kind, k.Ref) {
		return harness.Failf("C10/string-shape", "String() of %+v = %q / %q / %q", k, e.String(), o.String(), f.String())
	}
	return nil
}

func plainObjectID(k id3) osm.ObjectID {
	switch k.Kind {
	case osm.TypeChangeset:
		return osm.ChangesetID(k.Ref).ObjectID()
	case osm.TypeNote:
		return osm.NoteID(k.Ref).ObjectID()
	case osm.TypeUser:
		return osm.UserID(k.Ref).ObjectID()
	}
	panic("kind")
}

func checkPlain(k id3) error {
	o := plainObjectID(k)
	var viaObj osm.ObjectID
	switch k.Kind {
	case osm.TypeChangeset:
		viaObj = (&osm.Changeset{ID: osm.ChangesetID(k.Ref)}).ObjectID()
	case osm.TypeNote:
		viaObj = (&osm.Note{ID: osm.NoteID(k.Ref)}).ObjectID()
	case osm.TypeUser:
		viaObj = (&osm.User{ID: osm.UserID(k.Ref)}).ObjectID()
	}
	if viaObj != o {
		return harness.Failf("C10/constructors-disagree", "object method and id method disagree for %+v", k)
	}
	if o.Type() != k.Kind || o.Ref() != k.Ref || o.Version() != 0 {
		return harness.Failf("C10/object-roundtrip", "ObjectID of %+v decodes to (%v,%d,%d)", k, o.Type(), o.Ref(), o.Version())
	}
	if po, err := osm.ParseObjectID(o.String()); err != nil || po != o {
		return harness.Failf("C10/parse-roundtrip", "ParseObjectID(%q) = %d, %v; want %d", o.String(), po, err, o)
	}
	if want := fmt.Sprintf("%s/%d:-", k.Kind, k.Ref); o.String() != want {
		return harness.Failf("C10/string-shape", "String() = %q want %q", o.String(), want)
	}
	return nil
}

func nontrivial(k id3) bool { return k.Ref >= 1<<32 || k.Ver >= 1<<15 }

func TestBoundarySweep(t *testing.T) {
	harness.Enumerate(t, "boundary-sweep",
		"exhaustive cross product kinds{node,way,relation} x boundary refs (0,1,2,2^b-1,2^b,2^b+1 for all b<=40, 2^40-2, 2^40-1) x boundary versions (same for b<=16), plus changeset/note/user x boundary refs and the bounds id: round trip through every constructor/accessor, String/Parse round trip, injectivity, and strict integer order along the lexicographic (kind,ref,version) enumeration; non-trivial = ref>=2^32 or version>=2^15",
		true, func(e *harness.Enum) {
			refs, vers := boundary(maxRef), boundary(maxVer)
			seen := map[int64]id3{}
			var prev osm.ElementID
			var prevK id3
			first := true
			for _, kind := range elementKinds {
				for _, r := range refs {
					for _, v := range vers {
						k := id3{kind, r, v}
						e.Case(nontrivial(k), fmt.Sprint(k))
						if err := checkElement(k); err != nil {
							f := err.(*harness.Failure)
							e.Fail(f.Sig, k, "%s", f.Msg)
							return
						}
						id, _ := elementIDs(k)
						if o, dup := seen[int64(id)]; dup {
							e.Fail("C10/collision", []id3{o, k}, "%+v and %+v both pack to %d", o, k, id)
							return
						}
						seen[int64(id)] = k
						if !first && !(prev < id) {
							e.Fail("C10/order", []id3{prevK, k}, "%+v (%d) is not below %+v (%d) although it precedes it in (kind,ref,version) order", prevK, prev, k, id)
							return
						}
						first, prev, prevK = false, id, k
					}
				}
				// feature ids: injective and ordered too
			}
			var prevF osm.FeatureID
			first = true
			for _, kind := range elementKinds {
				for _, r := range refs {
					f, _ := kind.FeatureID(r)
					if !first && !(prevF < f) {
						e.Fail("C10/order", id3{kind, r, 0}, "feature ids out of order at %v/%d", kind, r)
						return
					}
					first, prevF = false, f
				}
			}
			for _, kind := range plainKinds {
				var prevO osm.ObjectID
				for i, r := range refs {
					k := id3{kind, r, 0}
					e.Case(nontrivial(k), fmt.Sprint(k))
					if err := checkPlain(k); err != nil {
						f := err.(*harness.Failure)
						e.Fail(f.Sig, k, "%s", f.Msg)
						return
					}
					o := plainObjectID(k)
					if old, dup := seen[int64(o)]; dup {
						e.Fail("C10/collision", []id3{old, k}, "%+v and %+v both pack to %d", old, k, o)
						return
					}
					seen[int64(o)] = k
					if i > 0 && !(prevO < o) {
						e.Fail("C10/order", k, "%v object ids out of order at ref %d", kind, r)
						return
					}
					prevO = o
				}
			}
			var b *osm.Bounds
			bo := b.ObjectID()
			e.Case(false, "bounds")
			if bo.Type() != osm.TypeBounds {
				e.Fail("C10/object-roundtrip", "bounds", "bounds object id has type %v", bo.Type())
				return
			}
			if old, dup := seen[int64(bo)]; dup {
				e.Fail("C10/collision", old, "bounds id collides with %+v", old)
				return
			}
			if bo.Ref() != 0 || bo.Version() != 0 {
				e.Fail("C10/object-roundtrip", "bounds", "bounds object id decodes to ref %d version %d, want 0 and 0", bo.Ref(), bo.Version())
				return
			}
			if s := bo.String(); s != "bounds/0:-" {
				e.Fail("C10/object-string", "bounds", "bounds object id prints as %q, want \"bounds/0:-\"", s)
				return
			}
			if back, err := osm.ParseObjectID(bo.String()); err != nil || back != bo {
				e.Fail("C10/parse-roundtrip", "bounds", "ParseObjectID(%q) = %v, %v", bo.String(), back, err)
				return
			}
			if (&osm.Bounds{MinLat: 1, MaxLat: 2, MinLon: 3, MaxLon: 4}).ObjectID() != bo {
				e.Fail("C10/object-roundtrip", "bounds", "the object id of a bounds value depends on its content")
				return
			}
			e.Sample(map[string]any{"refs": len(refs), "versions": len(vers), "ids": len(seen), "example": id3{osm.TypeRelation, maxRef, maxVer}})
		})
}

func genID(t *rapid.T, label string) id3 {
	kind := rapid.SampledFrom(elementKinds).Draw(t, label+"kind")
	var ref, ver int64
	if rapid.Bool().Draw(t, label+"refBoundary") {
		ref = rapid.SampledFrom(boundary(maxRef)).Draw(t, label+"ref")
	} else {
		ref = rapid.Int64Range(0, maxRef).Draw(t, label+"ref")
	}
	if rapid.Bool().Draw(t, label+"verBoundary") {
		ver = rapid.SampledFrom(boundary(maxVer)).Draw(t, label+"ver")
	} else {
		ver = rapid.Int64Range(0, maxVer).Draw(t, label+"ver")
	}
	return id3{kind, ref, ver}
}

func TestRandomRoundTrip(t *testing.T) {
	harness.Run(t, harness.Spec[id3]{
		Name: "random-roundtrip", N: 20000,
		Rule: "random (kind, ref in [0,2^40), version in [0,2^16)) with half of the draws from the boundary sets; same oracle as the sweep; non-trivial = ref>=2^32 or version>=2^15",
		Gen:  func(t *rapid.T) id3 { return genID(t, "") },
		Check: func(k id3) error {
			if err := checkElement(k); err != nil {
				return err
			}
			return checkPlain(id3{plainKinds[int(k.Ref%3)], k.Ref, 0})
		},
		Classify: func(k id3) (bool, []string) { return nontrivial(k), nil },
	})
}

type pair struct{ A, B id3 }

func less3(a, b id3) bool {
	if rank(a.Kind) != rank(b.Kind) {
		return rank(a.Kind) < rank(b.Kind)
	}
	if a.Ref != b.Ref {
		return a.Ref < b.Ref
	}
	return a.Ver < b.Ver
}

func TestOrderPairs(t *testing.T) {
	harness.Run(t, harness.Spec[pair]{
		Name: "order-pairs", N: 20000,
		Rule: "random ordered pairs of (kind,ref,version), second derived from the first by changing one component in half of the cases; integer order of element / object / feature ids must equal lexicographic (kind rank, ref, version) order; non-trivial = cross-kind pair or a pair differing only in version or ref>=2^32",
		Gen: func(t *rapid.T) pair {
			a := genID(t, "a")
			b := genID(t, "b")
			switch rapid.IntRange(0, 4).Draw(t, "derive") {
			case 0:
				b.Kind, b.Ref = a.Kind, a.Ref
			case 1:
				b.Kind, b.Ver = a.Kind, a.Ver
			case 2:
				b.Ref, b.Ver = a.Ref, a.Ver
			}
			return pair{a, b}
		},
		Check: func(p pair) error {
			ea, _ := elementIDs(p.A)
			eb, _ := elementIDs(p.B)
			if (ea < eb) != less3(p.A, p.B) || (ea == eb) != (p.A == p.B) {
				return harness.Failf("C10/order", "element ids of %+v (%d) and %+v (%d) compare differently from (kind,ref,version)", p.A, ea, p.B, eb)
			}
			if (ea.ObjectID() < eb.ObjectID()) != less3(p.A, p.B) {
				return harness.Failf("C10/order", "object ids of %+v and %+v compare differently from (kind,ref,version)", p.A, p.B)
			}
			fa, fb := p.A, p.B
			fa.Ver, fb.Ver = 0, 0
			if (ea.FeatureID() < eb.FeatureID()) != less3(fa, fb) {
				return harness.Failf("C10/order", "feature ids of %+v and %+v compare differently from (kind,ref)", p.A, p.B)
			}
			return nil
		},
		Classify: func(p pair) (bool, []string) {
			var cl []string
			if p.A.Kind != p.B.Kind {
				cl = append(cl, "cross-kind")
			}
			if p.A.Kind == p.B.Kind && p.A.Ref == p.B.Ref {
				cl = append(cl, "version-only")
			}
			return len(cl) > 0 || nontrivial(p.A) || nontrivial(p.B), cl
		},
		Floors: map[string]float64{"cross-kind": 0.2, "version-only": 0.1},
	})
}

func TestSorts(t *testing.T) {
	harness.Run(t, harness.Spec[[]id3]{
		Name: "sorts", N: 3000,
		Rule: "random lists (0..40) of elements with duplicates and near-duplicates; Elements.Sort, ElementIDs.Sort and FeatureIDs.Sort must equal a reference sort by (kind rank, ref, version) and be a permutation of the input (for Elements: of the input objects, also when several distinct objects carry the same id); non-trivial = list mixes kinds and has >= 2 entries sharing (kind,ref)",
		Gen: func(t *rapid.T) []id3 {
			n := rapid.IntRange(0, 40).Draw(t, "n")
			out := make([]id3, 0, n)
			for i := 0; i < n; i++ {
				if len(out) > 0 && rapid.IntRange(0, 2).Draw(t, "dup") == 0 {
					k := out[rapid.IntRange(0, len(out)-1).Draw(t, "of")]
					switch rapid.IntRange(0, 2).Draw(t, "how") {
					case 0:
						k.Ver = rapid.Int64Range(0, maxVer).Draw(t, "v")
					case 1:
						k.Kind = rapid.SampledFrom(elementKinds).Draw(t, "k")
					}
					out = append(out, k)
					continue
				}
				out = append(out, genID(t, ""))
			}
			return out
		},
		Check: func(in []id3) error {
			want := append([]id3(nil), in...)
			sort.SliceStable(want, func(i, j int) bool { return less3(want[i], want[j]) })
			var els osm.Elements
			var eids osm.ElementIDs
			var fids osm.FeatureIDs
			for _, k := range in {
				id, _ := elementIDs(k)
				eids = append(eids, id)
				fids = append(fids, id.FeatureID())
				switch k.Kind {
				case osm.TypeNode:
					els = append(els, &osm.Node{ID: osm.NodeID(k.Ref), Version: int(k.Ver)})
				case osm.TypeWay:
					els = append(els, &osm.Way{ID: osm.WayID(k.Ref), Version: int(k.Ver)})
				default:
					els = append(els, &osm.Relation{ID: osm.RelationID(k.Ref), Version: int(k.Ver)})
				}
			}
			// the element objects themselves must survive: the output is a
			// permutation of the input objects, also when several objects share
			// (kind, ref, version)
			count := map[osm.Element]int{}
			for _, e := range els {
				count[e]++
			}
			els.Sort()
			for _, e := range els {
				count[e]--
			}
			for e, n := range count {
				if n != 0 {
					return harness.Failf("C10/sort", "Elements.Sort is not a permutation of its input: object %v appears %d times more in the input than in the output (input %v)", e.ElementID(), n, in)
				}
			}
			eids.Sort()
			fids.Sort()
			if len(els) != len(want) || len(eids) != len(want) || len(fids) != len(want) {
				return harness.Failf("C10/sort", "sort changed the length")
			}
			for i, k := range want {
				e := els[i]
				got := id3{e.ElementID().Type(), e.ElementID().Ref(), int64(e.ElementID().Version())}
				if got != k {
					return harness.Failf("C10/sort", "Elements.Sort position %d = %+v want %+v (input %v)", i, got, k, in)
				}
				got = id3{eids[i].Type(), eids[i].Ref(), int64(eids[i].Version())}
				if got != k {
					return harness.Failf("C10/sort", "ElementIDs.Sort position %d = %+v want %+v", i, got, k)
				}
			}
			wf := append([]id3(nil), in...)
			for i := range wf {
				wf[i].Ver = 0
			}
			sort.SliceStable(wf, func(i, j int) bool { return less3(wf[i], wf[j]) })
			for i, k := range wf {
				if fids[i].Type() != k.Kind || fids[i].Ref() != k.Ref {
					return harness.Failf("C10/sort", "FeatureIDs.Sort position %d = %v want %+v", i, fids[i], k)
				}
			}
			return nil
		},
		Classify: func(in []id3) (bool, []string) {
			kinds := map[osm.Type]bool{}
			same := map[string]int{}
			shared := false
			for _, k := range in {
				kinds[k.Kind] = true
				key := fmt.Sprint(k.Kind, k.Ref)
				same[key]++
				if same[key] > 1 {
					shared = true
				}
			}
			return len(kinds) > 1 && shared, nil
		},
	})
}

// ---- parsing arbitrary text -------------------------------------------------

type verdict int

const (
	mustError verdict = iota
	mustEqual
	noClaim
)

func allDigits(s string) bool {
	if s == "" {
		return false
	}
	for _, c := range s {
		if c < '0' || c > '9' {
			return false
		}
	}
	return true
}

// recognise is the independent recogniser of kind/ref[:version|:-].
// withVersion: whether the grammar allows the version part (element, object).
func recognise(s string, kinds []osm.Type, withVersion bool) (verdict, id3) {
	slash := strings.Split(s, "/")
	if len(slash) != 2 {
		return mustError, id3{}
	}
	known := false
	for _, k := range kinds {
		if string(k) == slash[0] {
			known = true
		}
	}
	rest := slash[1]
	refPart, verPart, hasVer := rest, "", false
	if i := strings.IndexByte(rest, ':'); i >= 0 {
		refPart, verPart, hasVer = rest[:i], rest[i+1:], true
	}
	if hasVer && !withVersion {
		// "kind/ref:…" is not of the kind/ref shape
		if strings.Count(rest, ":") >= 1 {
			return mustError, id3{}
		}
	}
	if strings.Contains(verPart, ":") {
		return mustError, id3{} // more than one version separator
	}
	shapeRef := allDigits(refPart)
	shapeVer := !hasVer || verPart == "-" || allDigits(verPart)
	// explicit signs are accepted by strconv and are not part of the claim
	signed := func(p string) bool {
		return len(p) > 1 && (p[0] == '+' || p[0] == '-') && allDigits(p[1:])
	}
	if !known {
		return mustError, id3{}
	}
	if signed(refPart) || (hasVer && signed(verPart)) {
		if (shapeRef || signed(refPart)) && (shapeVer || signed(verPart)) {
			return noClaim, id3{}
		}
		return mustError, id3{}
	}
	if !shapeRef || !shapeVer {
		return mustError, id3{}
	}
	ref, err := strconv.ParseUint(refPart, 10, 64)
	if err != nil || ref > uint64(maxRef) {
		return noClaim, id3{} // shape-valid, out of range
	}
	var ver uint64
	if hasVer && verPart != "-" {
		ver, err = strconv.ParseUint(verPart, 10, 64)
		if err != nil || ver > uint64(maxVer) {
			return noClaim, id3{}
		}
	}
	kind := osm.Type(slash[0])
	if kind == osm.TypeBounds {
		return noClaim, id3{}
	}
	if rank(kind) < 0 && hasVer && ver != 0 {
		return noClaim, id3{} // versions on unversioned kinds: not claimed
	}
	return mustEqual, id3{kind, int64(ref), int64(ver)}
}

func checkText(s string) error {
	// element ids
	v, k := recognise(s, elementKinds, true)
	got, err := osm.ParseElementID(s)
	switch v {
	case mustError:
		if err == nil {
			return harness.Failf("C10/parse-accepts-malformed", "ParseElementID(%q) = %d (%v) without error", s, got, got)
		}
	case mustEqual:
		want, _ := elementIDs(k)
		if err != nil || got != want {
			return harness.Failf("C10/parse-wrong-id", "ParseElementID(%q) = %d, %v; want %d", s, got, err, want)
		}
	}
	// object ids
	objKinds := append(append([]osm.Type{}, elementKinds...), osm.TypeChangeset, osm.TypeNote, osm.TypeUser, osm.TypeBounds)
	v, k = recognise(s, objKinds, true)
	gotO, err := osm.ParseObjectID(s)
	switch v {
	case mustError:
		if err == nil {
			return harness.Failf("C10/parse-accepts-malformed", "ParseObjectID(%q) = %d without error", s, gotO)
		}
	case mustEqual:
		var want osm.ObjectID
		if rank(k.Kind) >= 0 {
			e, _ := elementIDs(k)
			want = e.ObjectID()
		} else {
			want = plainObjectID(k)
		}
		if err != nil || gotO != want {
			return harness.Failf("C10/parse-wrong-id", "ParseObjectID(%q) = %d, %v; want %d", s, gotO, err, want)
		}
	}
	// a version on a kind without versions is not judged above; but whatever
	// identifier a parser hands out for in-range numbers names that kind and
	// reference and is canonical: its textual form parses back to itself
	if m := unversionedWithVersion.FindStringSubmatch(s); m != nil && err == nil {
		ref, _ := strconv.ParseInt(m[2], 10, 64)
		ver, _ := strconv.ParseInt(m[3], 10, 64)
		if ref <= maxRef && ver <= maxVer {
			if gotO.Type() != osm.Type(m[1]) || gotO.Ref() != ref {
				return harness.Failf("C10/parse-wrong-id", "ParseObjectID(%q) = %d, which decodes to %s/%d", s, gotO, gotO.Type(), gotO.Ref())
			}
			if back, err2 := osm.ParseObjectID(gotO.String()); err2 != nil || back != gotO {
				return harness.Failf("C10/parse-roundtrip", "ParseObjectID(%q) = %d prints as %q, which parses to %d (%v): not the same identifier", s, gotO, gotO.String(), back, err2)
			}
		}
	}
	// feature ids
	v, k = recognise(s, elementKinds, false)
	gotF, err := osm.ParseFeatureID(s)
	switch v {
	case mustError:
		if err == nil {
			return harness.Failf("C10/parse-accepts-malformed", "ParseFeatureID(%q) = %d without error", s, gotF)
		}
	case mustEqual:
		e, _ := elementIDs(id3{k.Kind, k.Ref, 0})
		if err != nil || gotF != e.FeatureID() {
			return harness.Failf("C10/parse-wrong-id", "ParseFeatureID(%q) = %d, %v; want %d", s, gotF, err, e.FeatureID())
		}
	}
	return nil
}

var unversionedWithVersion = regexp.MustCompile(`^(changeset|note|user)/([0-9]{1,13}):([0-9]{1,5})$`)

var kindWords = []string{"node", "way", "relation", "changeset", "note", "user", "bounds", "Node", "nodes", "", "n", "area", "unknown", " node", "node ", "wáy"}
var numWords = []string{"0", "1", "7", "007", "65535", "65536", "1099511627775", "1099511627776", "9223372036854775807", "9223372036854775808", "99999999999999999999", "", "-", "-1", "+1", "1.0", "1e3", "0x10", "１２", " 1", "1 ", "x", "--1"}

func genText(t *rapid.T) string {
	switch rapid.IntRange(0, 3).Draw(t, "mode") {
	case 0: // canonical
		k := genID(t, "")
		e, _ := elementIDs(k)
		switch rapid.IntRange(0, 3).Draw(t, "form") {
		case 0:
			return e.String()
		case 1:
			return e.FeatureID().String()
		case 2:
			return plainObjectID(id3{plainKinds[int(k.Ref%3)], k.Ref, 0}).String()
		default:
			return fmt.Sprintf("%s/%d", k.Kind, k.Ref)
		}
	case 1, 2: // structured near-miss
		kind := rapid.SampledFrom(kindWords).Draw(t, "kw")
		num := func(l string) string {
			if rapid.Bool().Draw(t, l+"word") {
				return rapid.SampledFrom(numWords).Draw(t, l)
			}
			return strconv.FormatInt(rapid.Int64Range(0, 1<<41).Draw(t, l), 10)
		}
		sep1 := rapid.SampledFrom([]string{"/", "/", "/", ":", "", "//", "\\", " / "}).Draw(t, "sep1")
		s := kind + sep1 + num("ref")
		switch rapid.IntRange(0, 5).Draw(t, "tail") {
		case 0:
		case 1:
			s += ":" + num("ver")
		case 2:
			s += ":-"
		case 3:
			s += ":" + num("ver") + ":" + num("ver2")
		case 4:
			s += "/" + num("extra")
		case 5:
			s += rapid.SampledFrom([]string{":", "-", ":--", ": 1", ":1 ", "::1"}).Draw(t, "junk")
		}
		return s
	default:
		return rapid.String().Draw(t, "arbitrary")
	}
}

func TestParseText(t *testing.T) {
	harness.Run(t, harness.Spec[string]{
		Name: "parse-text", N: 30000,
		Rule:  "strings from three generators (canonical String() output; structured near-misses: wrong/missing separators, extra parts, unknown kinds, empty, signs, spaces, non-ASCII digits, overlong numbers; arbitrary Unicode). An independent recogniser of kind/ref[:version|:-] decides: not of that shape or unknown kind => all three parsers must return an error; of that shape with in-range numbers => exactly that id; out-of-range numbers, explicit signs, bounds/<n> and versions on unversioned kinds => not judged. Non-trivial = the recogniser reaches a verdict (error or equality) for a string containing '/'",
		Gen:   genText,
		Check: checkText,
		Classify: func(s string) (bool, []string) {
			v, _ := recognise(s, elementKinds, true)
			cl := []string{[]string{"must-error", "must-equal", "no-claim"}[v]}
			return strings.Contains(s, "/") && v != noClaim, cl
		},
		Floors: map[string]float64{"must-error": 0.2, "must-equal": 0.1},
	})
}

func FuzzParse(f *testing.F) {
	for _, s := range []string{"node/1:2", "way/5", "relation/7:-", "changeset/1:-", "node/1099511627775:65535", "bounds/0", "x/1", "node/1:2:3", "node//1", "node/-1", "node/+1:+1"} {
		f.Add(s)
	}
	f.Fuzz(func(t *testing.T, s string) {
		if err := checkText(s); err != nil {
			t.Fatal(err)
		}
	})
}
