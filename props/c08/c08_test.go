// Package c08 decides C08: PBF skip flags and filters select an unmodified
// subsequence of the unfiltered scan.
package c08

import (
	"bytes"
	"context"
	"fmt"
	"sync"
	"testing"

	"github.com/paulmach/osm"
	"github.com/paulmach/osm/osmpbf"
	"pgregory.net/rapid"

	"verif/internal/harness"
	"verif/internal/pbfgen"
)

func TestMain(m *testing.M) { harness.Main(m, "C08") }

// predicate modes; every one is a pure function of the element shown.
const (
	pNil = iota // no filter installed
	pAll
	pNone
	pParity   // id parity: alternating on sequential ids
	pHash     // (id*31+version) mod 3 != 0
	pTagged   // has tags
	pUntagged // has no tags
	pChildren // >= 2 refs / members (nodes: lat >= 0)
	pFew      // < 2 refs / members (nodes: lat < 0)
	nModes
)

type Case struct {
	File                               *pbfgen.File
	Procs                              int
	SkipNodes, SkipWays, SkipRelations bool
	ModeN, ModeW, ModeR                int
	Headerless                         bool
}

func accept(mode int, id int64, version int, ntags int, nchildren int, lat float64, isNode bool) bool {
	switch mode {
	case pNil, pAll:
		return true
	case pNone:
		return false
	case pParity:
		return id%2 == 0
	case pHash:
		return (uint64(id)*31+uint64(version))%3 != 0
	case pTagged:
		return ntags > 0
	case pUntagged:
		return ntags == 0
	case pChildren:
		if isNode {
			return lat >= 0
		}
		return nchildren >= 2
	case pFew:
		if isNode {
			return lat < 0
		}
		return nchildren < 2
	}
	return true
}

func acceptObj(c *Case, o osm.Object) (skipped bool, ok bool) {
	switch x := o.(type) {
	case *osm.Node:
		return c.SkipNodes, accept(c.ModeN, int64(x.ID), x.Version, len(x.Tags), 0, x.Lat, true)
	case *osm.Way:
		return c.SkipWays, accept(c.ModeW, int64(x.ID), x.Version, len(x.Tags), len(x.Nodes), 0, false)
	case *osm.Relation:
		return c.SkipRelations, accept(c.ModeR, int64(x.ID), x.Version, len(x.Tags), len(x.Members), 0, false)
	}
	return true, false
}

type shown struct {
	ptr  osm.Object
	snap string
	copy osm.Object
}

func cloneObj(o osm.Object) osm.Object {
	switch x := o.(type) {
	case *osm.Node:
		c := *x
		c.Tags = append(osm.Tags(nil), x.Tags...)
		return &c
	case *osm.Way:
		c := *x
		c.Tags = append(osm.Tags(nil), x.Tags...)
		c.Nodes = append(osm.WayNodes(nil), x.Nodes...)
		return &c
	case *osm.Relation:
		c := *x
		c.Tags = append(osm.Tags(nil), x.Tags...)
		c.Members = append(osm.Members(nil), x.Members...)
		return &c
	}
	return o
}

func check(c Case) error {
	enc := c.File.Encode()
	all, _ := c.File.Expected()
	var want []osm.Object
	var wantShown []osm.Object
	for _, o := range all {
		skipped, ok := acceptObj(&c, o)
		if skipped {
			continue
		}
		wantShown = append(wantShown, o)
		if ok {
			want = append(want, o)
		}
	}

	var mu sync.Mutex
	var calls []shown
	record := func(o osm.Object) {
		mu.Lock()
		calls = append(calls, shown{ptr: o, snap: pbfgen.Snap(o), copy: cloneObj(o)})
		mu.Unlock()
	}
	data := enc.Data
	if c.Headerless {
		data = data[enc.Header.End:] // a resumed scan: the stream starts at the first data block
	}
	s := osmpbf.New(context.Background(), bytes.NewReader(data), c.Procs)
	defer s.Close()
	s.SkipNodes, s.SkipWays, s.SkipRelations = c.SkipNodes, c.SkipWays, c.SkipRelations
	if c.ModeN != pNil {
		s.FilterNode = func(n *osm.Node) bool {
			record(n)
			return accept(c.ModeN, int64(n.ID), n.Version, len(n.Tags), 0, n.Lat, true)
		}
	}
	if c.ModeW != pNil {
		s.FilterWay = func(w *osm.Way) bool {
			record(w)
			return accept(c.ModeW, int64(w.ID), w.Version, len(w.Tags), len(w.Nodes), 0, false)
		}
	}
	if c.ModeR != pNil {
		s.FilterRelation = func(r *osm.Relation) bool {
			record(r)
			return accept(c.ModeR, int64(r.ID), r.Version, len(r.Tags), len(r.Members), 0, false)
		}
	}
	var got []osm.Object
	var snaps []string
	for s.Scan() {
		o := s.Object()
		got = append(got, o)
		snaps = append(snaps, pbfgen.Snap(o))
	}
	if err := s.Err(); err != nil {
		return harness.Failf("C08/scan-error", "filtered scan of a valid file failed after %d objects: %v", len(got), err)
	}
	if d := pbfgen.DiffSeq(got, want); d != "" {
		return harness.Failf("C08/wrong-subsequence", "skip n/w/r=%v/%v/%v modes=%d/%d/%d procs=%d: %s", c.SkipNodes, c.SkipWays, c.SkipRelations, c.ModeN, c.ModeW, c.ModeR, c.Procs, d)
	}
	// never modified after being returned
	for i, o := range got {
		if now := pbfgen.Snap(o); now != snaps[i] {
			return harness.Failf("C08/modified-after-return", "object %d changed after it was returned:\n was %s\n now %s", i, snaps[i], now)
		}
	}
	// accepted objects are returned exactly as the filter saw them
	mu.Lock()
	defer mu.Unlock()
	bySeen := map[osm.Object]string{}
	for _, cl := range calls {
		bySeen[cl.ptr] = cl.snap // last call wins: reused memory is shown again
	}
	for i, o := range got {
		if sn, ok := bySeen[o]; ok && sn != snaps[i] {
			return harness.Failf("C08/differs-from-filter-view", "object %d differs from what its filter accepted:\n shown    %s\n returned %s", i, sn, snaps[i])
		}
	}
	// the filters were shown exactly the elements of the non-skipped types, in
	// full (per element kind with a filter installed); matching is greedy by
	// field equality because blocks are decoded in parallel.
	var expectShown []osm.Object
	for _, o := range wantShown {
		switch o.(type) {
		case *osm.Node:
			if c.ModeN != pNil {
				expectShown = append(expectShown, o)
			}
		case *osm.Way:
			if c.ModeW != pNil {
				expectShown = append(expectShown, o)
			}
		case *osm.Relation:
			if c.ModeR != pNil {
				expectShown = append(expectShown, o)
			}
		}
	}
	if len(calls) != len(expectShown) {
		return harness.Failf("C08/filter-calls", "filters were called %d times, %d elements of non-skipped filtered types exist", len(calls), len(expectShown))
	}
	if len(calls) <= 400 {
		// perfect matching between expected elements and filter calls (field
		// equality with the absent-timestamp tolerance is not symmetric, so a
		// greedy assignment could strand an element): Kuhn's augmenting paths.
		n := len(calls)
		adj := make([][]int, n)
		for i, w := range expectShown {
			for j, cl := range calls {
				if pbfgen.Diff(cl.copy, w) == "" {
					adj[i] = append(adj[i], j)
				}
			}
		}
		matchOfCall := make([]int, n)
		for j := range matchOfCall {
			matchOfCall[j] = -1
		}
		var try func(i int, seen []bool) bool
		try = func(i int, seen []bool) bool {
			for _, j := range adj[i] {
				if seen[j] {
					continue
				}
				seen[j] = true
				if matchOfCall[j] < 0 || try(matchOfCall[j], seen) {
					matchOfCall[j] = i
					return true
				}
			}
			return false
		}
		for i, w := range expectShown {
			if !try(i, make([]bool, n)) {
				var same []string
				for _, cl := range calls {
					if pbfgen.Name(cl.copy) == pbfgen.Name(w) {
						same = append(same, fmt.Sprintf("[diff=%q] %s", pbfgen.Diff(cl.copy, w), cl.snap))
					}
				}
				return harness.Failf("C08/filter-view", "no filter call was shown element %v as the file encodes it (%s); calls shown for that id/version: %v", pbfgen.Name(w), pbfgen.Snap(w), same)
			}
		}
	}
	// the returned elements are unmodified also in the sense that they are
	// values of their own: appending to one changes no other
	if d := pbfgen.AppendIndependence(got); d != "" {
		return harness.Failf("C08/results-share-memory", "%s", d)
	}
	return nil
}

func optParts(o osm.Object) int {
	switch x := o.(type) {
	case *osm.Node:
		return len(x.Tags)
	case *osm.Way:
		return len(x.Tags) + len(x.Nodes)
	case *osm.Relation:
		return len(x.Tags) + len(x.Members)
	}
	return 0
}

func classify(c Case) (bool, []string) {
	var cl []string
	nt := false
	for _, b := range c.File.Blocks {
		objs := b.Expected()
		for i := 1; i < len(objs); i++ {
			p, q := objs[i-1], objs[i]
			if fmt.Sprintf("%T", p) != fmt.Sprintf("%T", q) {
				continue
			}
			sp, okp := acceptObj(&c, p)
			sq, okq := acceptObj(&c, q)
			if !sp && !sq && !okp && okq && optParts(q) < optParts(p) {
				nt = true
			}
		}
	}
	if nt {
		cl = append(cl, "reject-then-accept-smaller")
	}
	if c.SkipNodes || c.SkipWays || c.SkipRelations {
		cl = append(cl, "skip-flag")
	}
	if c.Procs > 1 {
		cl = append(cl, "procs>1")
	}
	return nt, cl
}

func TestFilter(t *testing.T) {
	harness.Run(t, harness.Spec[Case]{
		Name: "filter", N: 1500,
		Rule: "generated PBF files (1..5 blocks, sequential ids in half of the cases so id parity alternates) x all 8 skip-flag combinations x stream start (whole file, or - one case in five - at the first data block like a resumed scan) x per-type predicate from {none installed, accept-all, reject-all, id parity, hash(id,version) mod 3, tagged, untagged, >=2 children, <2 children} x decoder count; oracle = the model's unfiltered sequence filtered by the same pure predicate in the harness, deep snapshots at receipt vs end of scan, snapshot the filter saw vs object returned, and the multiset of elements shown to the filters vs the model; non-trivial = some rejected element is immediately followed in its block by an accepted element of the same kind with fewer tags/children (where reused memory could leak)",
		Gen: func(t *rapid.T) Case {
			f := pbfgen.GenFile(t, pbfgen.Opt{MinBlocks: 1, MaxBlocks: 5, SeqIDs: rapid.Bool().Draw(t, "seq"), Big: rapid.IntRange(0, 3).Draw(t, "big") == 0})
			return Case{
				File:          f,
				Procs:         rapid.SampledFrom([]int{1, 2, 3, 5, 16}).Draw(t, "procs"),
				SkipNodes:     rapid.IntRange(0, 3).Draw(t, "sn") == 0,
				SkipWays:      rapid.IntRange(0, 3).Draw(t, "sw") == 0,
				SkipRelations: rapid.IntRange(0, 3).Draw(t, "sr") == 0,
				ModeN:         rapid.IntRange(0, nModes-1).Draw(t, "mn"),
				ModeW:         rapid.IntRange(0, nModes-1).Draw(t, "mw"),
				ModeR:         rapid.IntRange(0, nModes-1).Draw(t, "mr"),
				Headerless:    rapid.IntRange(0, 4).Draw(t, "headerless") == 0,
			}
		},
		Check:    check,
		Classify: classify,
		Describe: func(c Case) any {
			m := c.File.Summary()
			delete(m, "header")
			m["procs"] = c.Procs
			m["skip"] = []bool{c.SkipNodes, c.SkipWays, c.SkipRelations}
			m["modes"] = []int{c.ModeN, c.ModeW, c.ModeR}
			return m
		},
		Floors:   map[string]float64{"reject-then-accept-smaller": 0.1, "skip-flag": 0.3},
		Inflight: true,
	})
}

// every skip combination x a few predicate modes on one generated file family
func TestSkipMatrix(t *testing.T) {
	harness.Run(t, harness.Spec[Case]{
		Name: "skip-matrix", N: 60,
		Rule: "for each generated file all 8 skip-flag combinations are run (no filters) against the model; non-trivial = file holds at least two element kinds",
		Gen: func(t *rapid.T) Case {
			return Case{File: pbfgen.GenFile(t, pbfgen.Opt{MinBlocks: 1, MaxBlocks: 4, NonEmpty: true}), Procs: rapid.SampledFrom([]int{1, 4}).Draw(t, "procs")}
		},
		Check: func(c Case) error {
			for m := 0; m < 8; m++ {
				cc := c
				cc.SkipNodes, cc.SkipWays, cc.SkipRelations = m&1 != 0, m&2 != 0, m&4 != 0
				if err := check(cc); err != nil {
					return err
				}
			}
			return nil
		},
		Classify: func(c Case) (bool, []string) {
			kinds := map[string]bool{}
			objs, _ := c.File.Expected()
			for _, o := range objs {
				kinds[fmt.Sprintf("%T", o)] = true
			}
			return len(kinds) >= 2, nil
		},
		Inflight: true,
	})
}
