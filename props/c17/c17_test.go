// Package c17 decides C17: GeoJSON conversion maps elements to features
// exactly; options only subtract.
package c17

import (
	"encoding/json"
	"fmt"
	"math"
	"reflect"
	"sort"
	"strings"
	"testing"
	"time"

	"github.com/paulmach/orb"
	"github.com/paulmach/orb/geojson"
	"github.com/paulmach/osm"
	"github.com/paulmach/osm/osmgeojson"
	"pgregory.net/rapid"

	"verif/internal/harness"
)

func TestMain(m *testing.M) { harness.Main(m, "C17") }

type T struct{ K, V string }

type Meta struct {
	Version   int
	TS        int64 // unix seconds; 0 = zero time
	Changeset int64
	User      string
	UID       int64
}

type N struct {
	ID        int64
	Present   bool // node object exists in the data set
	Unlocated bool // lon=lat=0, version 0
	Tags      []T
	Meta      Meta
}

type W struct {
	ID        int64
	Refs      []int64
	Annotated bool // coordinates carried on the way nodes
	Tags      []T
	Meta      Meta
}

type M struct {
	Type string
	Ref  int64
	Role string
}

type R struct {
	ID      int64
	Tags    []T // including type
	Members []M
	Meta    Meta
}

type Case struct {
	// VersionOnly: the nodes of even-numbered ways without coordinates on their
	// way nodes carry a version and changeset there (no location).
	VersionOnly bool
	Nodes       []N
	Ways        []W
	Rels        []R
	// IDMode maps node and way ids: 0 as is, 1 negative (editor placeholders),
	// 2 beyond 2^40. Only used when no multipolygon/boundary relation is present
	// (those name features through the packed 40-bit feature id).
	IDMode int
}

func (c *Case) mapID(id int64) int64 {
	switch c.IDMode {
	case 1:
		return -id
	case 2:
		return id + 1<<40
	}
	return id
}

// node i of the pool sits on a circle in id order: any increasing id sequence
// is a simple (star-shaped) polygon, counter-clockwise.
func loc(id int64) (lon, lat float64) {
	a := 2 * math.Pi * float64(id) / 16
	r := 10.0 + float64(id%3)
	return math.Round((30+r*math.Cos(a))*1e5) / 1e5, math.Round((40+r*math.Sin(a))*1e5) / 1e5
}

func tags(ts []T) osm.Tags {
	var out osm.Tags
	for _, t := range ts {
		out = append(out, osm.Tag{Key: t.K, Value: t.V})
	}
	return out
}

func tm(s int64) time.Time {
	if s == 0 {
		return time.Time{}
	}
	return time.Unix(s, 0).UTC()
}

func (c *Case) build() *osm.OSM {
	o := &osm.OSM{}
	for _, n := range c.Nodes {
		if !n.Present {
			continue
		}
		x := &osm.Node{ID: osm.NodeID(c.mapID(n.ID)), Visible: true, Tags: tags(n.Tags), Version: n.Meta.Version, Timestamp: tm(n.Meta.TS), ChangesetID: osm.ChangesetID(n.Meta.Changeset), User: n.Meta.User, UserID: osm.UserID(n.Meta.UID)}
		if n.Unlocated {
			x.Version = 0
		} else {
			x.Lon, x.Lat = loc(n.ID)
		}
		o.Nodes = append(o.Nodes, x)
	}
	for _, w := range c.Ways {
		x := &osm.Way{ID: osm.WayID(c.mapID(w.ID)), Visible: true, Tags: tags(w.Tags), Version: w.Meta.Version, Timestamp: tm(w.Meta.TS), ChangesetID: osm.ChangesetID(w.Meta.Changeset), User: w.Meta.User, UserID: osm.UserID(w.Meta.UID)}
		for _, r := range w.Refs {
			wn := osm.WayNode{ID: osm.NodeID(c.mapID(r))}
			if w.Annotated {
				wn.Lon, wn.Lat = loc(r)
				wn.Version = 1
			} else if c.VersionOnly && w.ID%2 == 0 {
				// annotated with a version and changeset but no location (as a
				// history extract may do): the location still comes from the node
				wn.Version, wn.ChangesetID = 2, 9
			}
			x.Nodes = append(x.Nodes, wn)
		}
		o.Ways = append(o.Ways, x)
	}
	for _, r := range c.Rels {
		x := &osm.Relation{ID: osm.RelationID(r.ID), Visible: true, Tags: tags(r.Tags), Version: r.Meta.Version, Timestamp: tm(r.Meta.TS), ChangesetID: osm.ChangesetID(r.Meta.Changeset), User: r.Meta.User, UserID: osm.UserID(r.Meta.UID)}
		for _, m := range r.Members {
			ref := m.Ref
			if m.Type != "relation" {
				ref = c.mapID(ref)
			}
			x.Members = append(x.Members, osm.Member{Type: osm.Type(m.Type), Ref: ref, Role: m.Role})
		}
		o.Relations = append(o.Relations, x)
	}
	return o
}

// the published list of uninteresting keys (harness transcription)
var boring = map[string]bool{"source": true, "source_ref": true, "source:ref": true, "history": true, "attribution": true, "created_by": true, "tiger:county": true, "tiger:tlid": true, "tiger:upload_uuid": true}

func interesting(ts []T) bool {
	for _, t := range ts {
		if !boring[t.K] {
			return true
		}
	}
	return false
}

func find(ts []T, k string) string {
	for _, t := range ts {
		if t.K == k {
			return t.V
		}
	}
	return ""
}

// area: closed with more than 3 refs and an area-making tag; the generator only
// uses building=yes / area=yes / landuse=x to make areas and highway=* / none otherwise
func isArea(w W) bool {
	if len(w.Refs) <= 3 || w.Refs[0] != w.Refs[len(w.Refs)-1] {
		return false
	}
	if find(w.Tags, "area") == "no" {
		return false
	}
	return find(w.Tags, "area") == "yes" || find(w.Tags, "building") != "" || find(w.Tags, "landuse") != ""
}

func snapshot(o *osm.OSM) string {
	var sb strings.Builder
	for _, n := range o.Nodes {
		fmt.Fprintf(&sb, "%+v|", *n)
	}
	for _, w := range o.Ways {
		fmt.Fprintf(&sb, "%+v|", *w)
	}
	for _, r := range o.Relations {
		fmt.Fprintf(&sb, "%+v|", *r)
	}
	return sb.String()
}

func edgeKey(a, b orb.Point) string {
	if a[0] > b[0] || (a[0] == b[0] && a[1] > b[1]) {
		a, b = b, a
	}
	return fmt.Sprintf("%v,%v-%v,%v", a[0], a[1], b[0], b[1])
}

func edges(ls orb.LineString) []string {
	var out []string
	for k := 0; k+1 < len(ls); k++ {
		if ls[k] != ls[k+1] {
			out = append(out, edgeKey(ls[k], ls[k+1]))
		}
	}
	return out
}

func featureJSON(f *geojson.Feature, dropID bool, dropProps ...string) string {
	cp := geojson.NewFeature(f.Geometry)
	if !dropID {
		cp.ID = f.ID
	}
	for k, v := range f.Properties {
		cp.Properties[k] = v
	}
	for _, k := range dropProps {
		delete(cp.Properties, k)
	}
	b, err := json.Marshal(cp)
	if err != nil {
		return "marshal error: " + err.Error()
	}
	return string(b)
}

func check(c Case) error {
	o := c.build()
	before := snapshot(o)
	fc, err := osmgeojson.Convert(o)
	if err != nil {
		return harness.Failf("C17/convert-error", "Convert failed: %v", err)
	}
	if snapshot(o) != before {
		return harness.Failf("C17/input-modified", "Convert modified its input")
	}
	j1, err := json.Marshal(fc)
	if err != nil {
		return harness.Failf("C17/marshal-error", "feature collection does not marshal: %v", err)
	}
	fc2, _ := osmgeojson.Convert(c.build())
	j2, _ := json.Marshal(fc2)
	if string(j1) != string(j2) {
		return harness.Failf("C17/nondeterministic", "two conversions of equal input differ")
	}
	// the result belongs to the caller: writing into the property maps of one
	// feature changes neither the other features nor later conversions
	if len(fc2.Features) > 0 {
		var each []string
		for _, f := range fc2.Features {
			b, _ := json.Marshal(f)
			each = append(each, string(b))
		}
		for _, k := range []string{"tags", "meta"} {
			switch m := fc2.Features[0].Properties[k].(type) {
			case map[string]string:
				m["~written-by-caller"] = "x"
			case map[string]interface{}:
				m["~written-by-caller"] = "x"
			}
		}
		for i, f := range fc2.Features[1:] {
			if b, _ := json.Marshal(f); string(b) != each[i+1] {
				return harness.Failf("C17/features-share-memory", "writing into the tags/meta maps of feature 0 changed feature %d:\n was %s\n now %s", i+1, each[i+1], b)
			}
		}
		fc3, _ := osmgeojson.Convert(c.build())
		if j3, _ := json.Marshal(fc3); string(j3) != string(j1) {
			return harness.Failf("C17/nondeterministic", "a conversion of equal input differs after the caller wrote into the property maps of an earlier result")
		}
	}
	// inline member geometry (Member.Nodes, as Overpass "out geom" delivers it)
	// stands in for a member way that is absent; for a way that is present in
	// the data it changes nothing
	{
		o4 := c.build()
		byID := map[osm.WayID]*osm.Way{}
		for _, w := range o4.Ways {
			byID[w.ID] = w
		}
		added := 0
		for _, r := range o4.Relations {
			for i, m := range r.Members {
				if w := byID[osm.WayID(m.Ref)]; m.Type == osm.TypeWay && w != nil {
					r.Members[i].Nodes = append(osm.WayNodes(nil), w.Nodes...)
					added++
				}
			}
		}
		if added > 0 {
			fc4, err := osmgeojson.Convert(o4)
			if err != nil {
				return harness.Failf("C17/convert-error", "Convert failed with inline member nodes: %v", err)
			}
			if j4, _ := json.Marshal(fc4); string(j4) != string(j1) {
				return harness.Failf("C17/inline-member-nodes", "giving %d way members whose way is present in the data a copy of the way's nodes as inline geometry changed the result:\n without %s\n with    %s", added, j1, j4)
			}
		}
	}

	// ---- model lookups
	nodeByID := map[int64]N{}
	for _, n := range c.Nodes {
		if n.Present {
			nodeByID[n.ID] = n
		}
	}
	wayByID := map[int64]W{}
	wayNode := map[int64]bool{}
	for _, w := range c.Ways {
		wayByID[w.ID] = w
		for _, r := range w.Refs {
			wayNode[r] = true
		}
	}
	relNode := map[int64]bool{}
	mpOuter := map[int64]bool{}    // outer member of a multipolygon / boundary relation
	specialWay := map[int64]bool{} // member of a route / multipolygon / boundary relation
	type membership struct {
		ID   int64
		Role string
		Tags map[string]string
	}
	memberships := map[string][]membership{}
	for _, r := range c.Rels {
		ty := find(r.Tags, "type")
		tmap := map[string]string{}
		for _, t := range r.Tags {
			tmap[t.K] = t.V
		}
		for _, m := range r.Members {
			if m.Type == "node" {
				relNode[m.Ref] = true
			}
			if m.Type == "way" {
				if ty == "route" || ty == "multipolygon" || ty == "boundary" {
					specialWay[m.Ref] = true
				}
				if (ty == "multipolygon" || ty == "boundary") && m.Role == "outer" {
					mpOuter[m.Ref] = true
				}
				if _, ok := wayByID[m.Ref]; !ok {
					continue
				}
			}
			key := fmt.Sprintf("%s/%d", m.Type, m.Ref)
			memberships[key] = append(memberships[key], membership{r.ID, m.Role, tmap})
		}
	}
	resolve := func(w W) (orb.LineString, bool) {
		var ls orb.LineString
		tainted := false
		for _, r := range w.Refs {
			if w.Annotated {
				lon, lat := loc(r)
				ls = append(ls, orb.Point{lon, lat})
			} else if n, ok := nodeByID[r]; ok && !n.Unlocated {
				lon, lat := loc(r)
				ls = append(ls, orb.Point{lon, lat})
			} else {
				tainted = true
			}
		}
		return ls, tainted
	}

	// ---- features: unique ids naming input elements
	feats := map[string]*geojson.Feature{}
	for _, f := range fc.Features {
		id, ok := f.ID.(string)
		if !ok {
			return harness.Failf("C17/feature-id", "feature without string id: %v", f.ID)
		}
		var kind string
		var ref int64
		if _, err := fmt.Sscanf(id, "%[a-z]/%d", &kind, &ref); err != nil {
			parts := strings.SplitN(id, "/", 2)
			if len(parts) != 2 {
				return harness.Failf("C17/feature-id", "feature id %q", id)
			}
			kind = parts[0]
			fmt.Sscan(parts[1], &ref)
		}
		// back to the model's id space (node and way ids may be mapped)
		written := ref
		if kind == "node" || kind == "way" {
			switch c.IDMode {
			case 1:
				ref = -ref
			case 2:
				ref -= 1 << 40
			}
		}
		if fmt.Sprintf("%s/%d", kind, written) != id {
			return harness.Failf("C17/feature-id", "feature id %q is not of the form type/id", id)
		}
		id = fmt.Sprintf("%s/%d", kind, ref)
		if _, dup := feats[id]; dup {
			return harness.Failf("C17/duplicate-feature", "two features for %s", f.ID)
		}
		feats[id] = f
		exists := false
		var etags []T
		var meta Meta
		switch kind {
		case "node":
			n, ok := nodeByID[ref]
			exists, etags, meta = ok, n.Tags, n.Meta
			if n.Unlocated {
				meta.Version = 0
			}
		case "way":
			w, ok := wayByID[ref]
			exists, etags, meta = ok, w.Tags, w.Meta
		case "relation":
			for _, r := range c.Rels {
				if r.ID == ref {
					exists, etags, meta = true, r.Tags, r.Meta
				}
			}
		}
		if !exists {
			return harness.Failf("C17/invented-feature", "feature %s names no input element", id)
		}
		// properties
		if f.Properties["type"] != kind || fmt.Sprint(f.Properties["id"]) != fmt.Sprint(written) {
			return harness.Failf("C17/properties", "feature %s has type/id properties %v/%v", id, f.Properties["type"], f.Properties["id"])
		}
		wantTags := map[string]string{}
		for _, t := range etags {
			wantTags[t.K] = t.V
		}
		gotTags, _ := f.Properties["tags"].(map[string]string)
		if len(gotTags) != len(wantTags) || (len(wantTags) > 0 && !reflect.DeepEqual(gotTags, wantTags)) {
			// multipolygon features may carry the relation's tags for an outer way identity and vice versa: judged below
			if !(kind == "way" && specialWay[ref]) {
				return harness.Failf("C17/tags", "feature %s tags %v, element tags %v", id, gotTags, wantTags)
			}
		}
		// meta: exactly the non-zero fields
		wantMeta := map[string]string{}
		if meta.TS != 0 {
			wantMeta["timestamp"] = fmt.Sprint(tm(meta.TS))
		}
		if meta.Version != 0 {
			wantMeta["version"] = fmt.Sprint(meta.Version)
		}
		if meta.Changeset != 0 {
			wantMeta["changeset"] = fmt.Sprint(meta.Changeset)
		}
		if meta.User != "" {
			wantMeta["user"] = meta.User
		}
		if meta.UID != 0 {
			wantMeta["uid"] = fmt.Sprint(meta.UID)
		}
		gm, ok := f.Properties["meta"].(map[string]interface{})
		if !ok {
			return harness.Failf("C17/meta", "feature %s has no meta property", id)
		}
		gotMeta := map[string]string{}
		for k, v := range gm {
			gotMeta[k] = fmt.Sprint(v)
		}
		if !reflect.DeepEqual(gotMeta, wantMeta) {
			return harness.Failf("C17/meta", "feature %s meta %v, want exactly the non-zero fields %v", id, gotMeta, wantMeta)
		}
		// relation memberships, in input order
		rb, _ := json.Marshal(f.Properties["relations"])
		var gotRel []struct {
			ID   int64             `json:"id"`
			Role string            `json:"role"`
			Tags map[string]string `json:"tags"`
		}
		json.Unmarshal(rb, &gotRel)
		wantRel := memberships[id]
		if f.Properties["relations"] == nil || len(gotRel) != len(wantRel) {
			return harness.Failf("C17/relations", "feature %s lists %d relation memberships (%s), want %d", id, len(gotRel), rb, len(wantRel))
		}
		for i := range wantRel {
			if gotRel[i].ID != wantRel[i].ID || gotRel[i].Role != wantRel[i].Role || !(len(gotRel[i].Tags) == 0 && len(wantRel[i].Tags) == 0 || reflect.DeepEqual(gotRel[i].Tags, wantRel[i].Tags)) {
				return harness.Failf("C17/relations", "feature %s membership %d = %+v want %+v", id, i, gotRel[i], wantRel[i])
			}
		}
	}

	// ---- nodes
	for _, n := range c.Nodes {
		if !n.Present {
			continue
		}
		want := !n.Unlocated && (!wayNode[n.ID] || interesting(n.Tags) || relNode[n.ID])
		f, got := feats[fmt.Sprintf("node/%d", n.ID)]
		if want != got {
			return harness.Failf("C17/node-rule", "node %d: feature=%v, rule says %v (located=%v way-node=%v interesting=%v relation-member=%v)", n.ID, got, want, !n.Unlocated, wayNode[n.ID], interesting(n.Tags), relNode[n.ID])
		}
		if got {
			lon, lat := loc(n.ID)
			if p, ok := f.Geometry.(orb.Point); !ok || p != (orb.Point{lon, lat}) {
				return harness.Failf("C17/node-geometry", "node %d geometry %v", n.ID, f.Geometry)
			}
		}
	}
	// ---- ways
	for _, w := range c.Ways {
		ls, tainted := resolve(w)
		f, got := feats[fmt.Sprintf("way/%d", w.ID)]
		if !specialWay[w.ID] && (len(ls) >= 2) != got {
			return harness.Failf("C17/way-rule", "way %d: feature=%v but %d coordinates resolve", w.ID, got, len(ls))
		}
		if !got {
			continue
		}
		if len(ls) < 2 {
			return harness.Failf("C17/way-rule", "way %d has a feature although only %d coordinates resolve", w.ID, len(ls))
		}
		if mpOuter[w.ID] {
			switch f.Geometry.(type) {
			case orb.Polygon, orb.MultiPolygon:
				continue // an old-style multipolygon may take its single outer way's identity (geometry is C16's business)
			}
		}
		if isArea(w) {
			pg, ok := f.Geometry.(orb.Polygon)
			if !ok || len(pg) < 1 {
				return harness.Failf("C17/area-geometry", "area way %d has geometry %T", w.ID, f.Geometry)
			}
			if len(pg) > 1 && !specialWay[w.ID] {
				return harness.Failf("C17/area-geometry", "area way %d has %d rings", w.ID, len(pg))
			}
			ring := pg[0]
			if len(ring) < 2 || ring[0] != ring[len(ring)-1] {
				return harness.Failf("C17/area-geometry", "area way %d ring is not closed: %v", w.ID, ring)
			}
			want := ls
			if want[0] != want[len(want)-1] {
				want = append(append(orb.LineString{}, want...), want[0])
			}
			fw := fmt.Sprint(want)
			rv := append(orb.LineString{}, want...)
			rv.Reverse()
			if g := fmt.Sprint(orb.LineString(ring)); g != fw && g != fmt.Sprint(rv) {
				return harness.Failf("C17/area-geometry", "area way %d ring %v is not the way's resolvable coordinates %v (in either direction)", w.ID, ring, want)
			}
			a := 0.0
			for k := 0; k+1 < len(ring); k++ {
				a += ring[k][0]*ring[k+1][1] - ring[k+1][0]*ring[k][1]
			}
			if a < 0 {
				return harness.Failf("C17/area-winding", "area way %d outer ring is clockwise", w.ID)
			}
		} else {
			g, ok := f.Geometry.(orb.LineString)
			if !ok || !reflect.DeepEqual(g, ls) {
				return harness.Failf("C17/way-geometry", "way %d geometry %v, resolvable node coordinates in order %v", w.ID, f.Geometry, ls)
			}
		}
		if t, _ := f.Properties["tainted"].(bool); t != tainted {
			return harness.Failf("C17/tainted", "way %d tainted=%v want %v", w.ID, t, tainted)
		}
	}
	// ---- relations
	for _, r := range c.Rels {
		ty := find(r.Tags, "type")
		f, got := feats[fmt.Sprintf("relation/%d", r.ID)]
		switch ty {
		case "route":
			var want []string
			any := false
			for _, m := range r.Members {
				if m.Type != "way" {
					continue
				}
				w, ok := wayByID[m.Ref]
				if !ok {
					continue
				}
				ls, _ := resolve(w)
				if len(ls) > 0 {
					any = true
				}
				if len(ls) >= 2 {
					want = append(want, edges(ls)...)
				}
			}
			if !got {
				if len(want) > 0 {
					return harness.Failf("C17/route-missing", "route relation %d with %d resolvable segments has no feature", r.ID, len(want))
				}
				continue
			}
			_ = any
			var have []string
			switch g := f.Geometry.(type) {
			case orb.LineString:
				have = edges(g)
			case orb.MultiLineString:
				for _, l := range g {
					have = append(have, edges(l)...)
				}
			default:
				return harness.Failf("C17/route-geometry", "route relation %d has geometry %T", r.ID, f.Geometry)
			}
			sort.Strings(want)
			sort.Strings(have)
			if fmt.Sprint(want) != fmt.Sprint(have) {
				return harness.Failf("C17/route-segments", "route relation %d: segments of the joined geometry differ from its member ways\n want %v\n have %v", r.ID, want, have)
			}
		case "multipolygon", "boundary":
			if got {
				switch f.Geometry.(type) {
				case orb.Polygon, orb.MultiPolygon:
				default:
					return harness.Failf("C17/multipolygon-geometry", "relation %d has geometry %T", r.ID, f.Geometry)
				}
			}
		default:
			if got {
				return harness.Failf("C17/relation-rule", "relation %d of type %q has a feature", r.ID, ty)
			}
		}
	}

	// ---- options only subtract what they document
	baseline := map[string]*geojson.Feature{}
	for id, f := range feats {
		baseline[id] = f
	}
	for mask := 1; mask < 16; mask++ {
		noID, noMeta, noRel, invalid := mask&1 != 0, mask&2 != 0, mask&4 != 0, mask&8 != 0
		ofc, err := osmgeojson.Convert(c.build(), osmgeojson.NoID(noID), osmgeojson.NoMeta(noMeta), osmgeojson.NoRelationMembership(noRel), osmgeojson.IncludeInvalidPolygons(invalid))
		if err != nil {
			return harness.Failf("C17/convert-error", "Convert with options %04b failed: %v", mask, err)
		}
		if invalid && !c.polygonsValid() {
			continue // IncludeInvalidPolygons legitimately adds geometry here
		}
		if len(ofc.Features) != len(fc.Features) {
			return harness.Failf("C17/option-changes-features", "options noID=%v noMeta=%v noRelationMembership=%v includeInvalid=%v: %d features instead of %d", noID, noMeta, noRel, invalid, len(ofc.Features), len(fc.Features))
		}
		var drop []string
		if noMeta {
			drop = append(drop, "meta")
		}
		if noRel {
			drop = append(drop, "relations")
		}
		for i, f := range ofc.Features {
			b := fc.Features[i]
			if noID && f.ID != nil {
				return harness.Failf("C17/option-noid", "NoID left id %v", f.ID)
			}
			if noMeta && f.Properties["meta"] != nil {
				return harness.Failf("C17/option-nometa", "NoMeta left a meta property")
			}
			if noRel && f.Properties["relations"] != nil {
				return harness.Failf("C17/option-norelations", "NoRelationMembership left a relations property")
			}
			if got, want := featureJSON(f, true), featureJSON(b, true, drop...); got != want {
				return harness.Failf("C17/option-changes-more", "options noID=%v noMeta=%v noRelationMembership=%v includeInvalid=%v change more than documented for feature %v:\n with options %s\n baseline     %s", noID, noMeta, noRel, invalid, b.ID, got, want)
			}
		}
	}
	return nil
}

// polygonsValid: every multipolygon/boundary relation has all its way members
// present with all nodes resolvable and they are closed ways (so nothing is invalid)
func (c *Case) polygonsValid() bool {
	ways := map[int64]W{}
	for _, w := range c.Ways {
		ways[w.ID] = w
	}
	nodes := map[int64]bool{}
	for _, n := range c.Nodes {
		if n.Present && !n.Unlocated {
			nodes[n.ID] = true
		}
	}
	for _, r := range c.Rels {
		ty := find(r.Tags, "type")
		if ty != "multipolygon" && ty != "boundary" {
			continue
		}
		outers := 0
		for _, m := range r.Members {
			if m.Type != "way" || (m.Role != "inner" && m.Role != "outer") {
				continue
			}
			if m.Role == "outer" {
				outers++
			} else {
				return false
			}
			w, ok := ways[m.Ref]
			if !ok || len(w.Refs) < 4 || w.Refs[0] != w.Refs[len(w.Refs)-1] {
				return false
			}
			for _, ref := range w.Refs {
				if !w.Annotated && !nodes[ref] {
					return false
				}
			}
		}
		if outers == 0 {
			return false
		}
	}
	return true
}

func classify(c Case) (bool, []string) {
	var cl []string
	tagged := map[int64]bool{}
	for _, n := range c.Nodes {
		if n.Present && interesting(n.Tags) {
			tagged[n.ID] = true
		}
	}
	shared := false
	for _, w := range c.Ways {
		for _, r := range w.Refs {
			if tagged[r] {
				shared = true
			}
		}
	}
	if shared {
		cl = append(cl, "way-through-tagged-node")
	}
	for _, r := range c.Rels {
		cl = append(cl, "relation:"+find(r.Tags, "type"))
	}
	for _, w := range c.Ways {
		if isArea(w) {
			cl = append(cl, "area-way")
			break
		}
	}
	for _, r := range c.Rels {
		if r.ID == 50 {
			cl = append(cl, "chained-route")
		}
	}
	if c.IDMode != 0 {
		cl = append(cl, "negative-or-huge-ids")
	}
	seen := map[string]bool{}
	var out []string
	for _, s := range cl {
		if !seen[s] {
			seen[s] = true
			out = append(out, s)
		}
	}
	return shared || len(c.Rels) > 0, out
}

var tagSets = [][]T{nil, nil, {{"source", "x"}}, {{"amenity", "pub"}}, {{"created_by", "y"}, {"name", "n"}}, {{"tiger:county", "z"}, {"attribution", "a"}}, {{"name", ""}}, {{"source", ""}, {"barrier", ""}}}
var wayTagSets = [][]T{nil, {{"highway", "primary"}}, {{"building", "yes"}}, {{"source", "z"}}, {{"area", "yes"}, {"name", "a"}}, {{"landuse", "forest"}}, {{"highway", "service"}, {"area", "no"}}, {{"name", ""}}, {{"highway", "primary"}, {"ref", ""}}}

func genMeta(t *rapid.T) Meta {
	m := Meta{}
	if rapid.Bool().Draw(t, "mv") {
		m.Version = rapid.IntRange(1, 9).Draw(t, "version")
	}
	if rapid.Bool().Draw(t, "mt") {
		m.TS = int64(rapid.IntRange(1300000000, 1600000000).Draw(t, "ts"))
		if rapid.IntRange(0, 5).Draw(t, "oddTS") == 0 {
			// before and at the Unix epoch, the far future
			m.TS = rapid.SampledFrom([]int64{-300000000, -1, 1, 253402300799}).Draw(t, "tsOdd")
		}
	}
	if rapid.Bool().Draw(t, "mc") {
		m.Changeset = int64(rapid.IntRange(1, 999).Draw(t, "cs"))
	}
	if rapid.Bool().Draw(t, "mu") {
		m.User = rapid.SampledFrom([]string{"alice", "bob", "é"}).Draw(t, "user")
	}
	if rapid.Bool().Draw(t, "mi") {
		m.UID = int64(rapid.IntRange(1, 99).Draw(t, "uid"))
	}
	return m
}

func genCase(t *rapid.T) Case {
	c := Case{}
	nn := rapid.IntRange(1, 14).Draw(t, "nn")
	for i := 1; i <= nn; i++ {
		n := N{ID: int64(i), Present: rapid.IntRange(0, 6).Draw(t, "present") != 0, Tags: rapid.SampledFrom(tagSets).Draw(t, "ntags"), Meta: genMeta(t)}
		c.Nodes = append(c.Nodes, n)
	}
	// unlocated stand-alone nodes
	if rapid.IntRange(0, 3).Draw(t, "unloc") == 0 {
		c.Nodes = append(c.Nodes, N{ID: 100, Present: true, Unlocated: true, Tags: rapid.SampledFrom(tagSets).Draw(t, "utags")})
	}
	nw := rapid.IntRange(0, 5).Draw(t, "nw")
	for w := 1; w <= nw; w++ {
		way := W{ID: int64(w), Tags: rapid.SampledFrom(wayTagSets).Draw(t, "wtags"), Annotated: rapid.IntRange(0, 3).Draw(t, "annotated") == 0, Meta: genMeta(t)}
		switch rapid.IntRange(0, 4).Draw(t, "shape") {
		case 0, 1: // closed ring over increasing ids (simple polygon)
			k := rapid.IntRange(3, 7).Draw(t, "k")
			ids := rapid.SliceOfNDistinct(rapid.IntRange(1, nn+1), 1, k, func(v int) int { return v }).Draw(t, "ring")
			sort.Ints(ids)
			for _, id := range ids {
				way.Refs = append(way.Refs, int64(id))
			}
			way.Refs = append(way.Refs, way.Refs[0])
			if rapid.IntRange(0, 2).Draw(t, "areaTag") != 0 {
				way.Tags = rapid.SampledFrom([][]T{{{"building", "yes"}}, {{"area", "yes"}, {"name", "a"}}, {{"landuse", "forest"}, {"source", "s"}}}).Draw(t, "atags")
			}
		default:
			k := rapid.IntRange(0, 6).Draw(t, "k")
			for i := 0; i < k; i++ {
				way.Refs = append(way.Refs, int64(rapid.IntRange(1, nn+1).Draw(t, "ref")))
			}
		}
		c.Ways = append(c.Ways, way)
	}
	// a chained route: a path over the node pool cut into consecutive ways that share
	// end nodes, pieces independently reversed and tagged, members shuffled - joining
	// has to flip pieces, and tagged pieces are also features of their own
	chained := rapid.IntRange(0, 2).Draw(t, "chainedRoute") == 0 && nn >= 4
	if chained {
		path := rapid.Permutation(func() []int {
			ids := make([]int, nn)
			for i := range ids {
				ids[i] = i + 1
			}
			return ids
		}()).Draw(t, "path")
		np := rapid.IntRange(2, 8).Draw(t, "npieces")
		if np > len(path)-1 {
			np = len(path) - 1
		}
		rel := R{ID: 50, Tags: []T{{"type", "route"}, {"route", "bus"}}, Meta: genMeta(t)}
		at := 0
		for p := 0; p < np; p++ {
			end := at + 1
			if p == np-1 {
				end = len(path) - 1
			} else if room := len(path) - 1 - at - (np - 1 - p); room > 1 {
				end = at + rapid.IntRange(1, room).Draw(t, "plen")
			}
			way := W{ID: int64(60 + p), Tags: rapid.SampledFrom([][]T{nil, {{"highway", "primary"}}, {{"source", "z"}}, {{"name", ""}}}).Draw(t, "ctags"), Annotated: rapid.IntRange(0, 3).Draw(t, "cann") == 0, Meta: genMeta(t)}
			for i := at; i <= end; i++ {
				way.Refs = append(way.Refs, int64(path[i]))
			}
			if rapid.Bool().Draw(t, "crev") {
				for i, j := 0, len(way.Refs)-1; i < j; i, j = i+1, j-1 {
					way.Refs[i], way.Refs[j] = way.Refs[j], way.Refs[i]
				}
			}
			c.Ways = append(c.Ways, way)
			rel.Members = append(rel.Members, M{"way", way.ID, ""})
			at = end
		}
		rel.Members = rapid.Permutation(rel.Members).Draw(t, "corder")
		c.Rels = append(c.Rels, rel)
	}
	nr := rapid.IntRange(0, 3).Draw(t, "nr")
	for r := 1; r <= nr; r++ {
		ty := rapid.SampledFrom([]string{"route", "route", "multipolygon", "boundary", "restriction", "site", ""}).Draw(t, "rtype")
		rel := R{ID: int64(r), Meta: genMeta(t)}
		if ty != "" {
			rel.Tags = append(rel.Tags, T{"type", ty})
		}
		if rapid.Bool().Draw(t, "rtagged") {
			rel.Tags = append(rel.Tags, T{"name", "rel"})
		}
		k := rapid.IntRange(0, 5).Draw(t, "nm")
		for i := 0; i < k; i++ {
			switch rapid.IntRange(0, 5).Draw(t, "mkind") {
			case 0:
				rel.Members = append(rel.Members, M{"node", int64(rapid.IntRange(1, nn).Draw(t, "nref")), "stop"})
			case 1:
				rel.Members = append(rel.Members, M{"relation", int64(rapid.IntRange(1, 4).Draw(t, "rref")), "sub"})
			default:
				role := "r"
				if ty == "multipolygon" || ty == "boundary" {
					role = rapid.SampledFrom([]string{"outer", "outer", "outer", "", "inner"}).Draw(t, "role")
				}
				rel.Members = append(rel.Members, M{"way", int64(rapid.IntRange(1, nw+1).Draw(t, "wref")), role})
			}
		}
		c.Rels = append(c.Rels, rel)
	}
	// Domain restriction (see DESIGN.md C17): a way is the outer member of at most
	// one multipolygon/boundary relation. An "old-style" multipolygon (single outer
	// way, relation without tags of its own) deliberately takes its outer way's
	// identity; two such relations over the same way are not judged.
	hasMP := false
	for _, r := range c.Rels {
		if ty := find(r.Tags, "type"); ty == "multipolygon" || ty == "boundary" {
			hasMP = true
		}
	}
	// IDMode stays 0: ids outside [0, 2^40) are outside the domain the library's
	// packed feature ids support (C10), its own membership index collides on them.
	_ = hasMP
	usedOuter := map[int64]bool{}
	for ri := range c.Rels {
		ty := find(c.Rels[ri].Tags, "type")
		if ty != "multipolygon" && ty != "boundary" {
			continue
		}
		for mi := range c.Rels[ri].Members {
			m := &c.Rels[ri].Members[mi]
			if m.Type == "way" && m.Role == "outer" {
				if usedOuter[m.Ref] {
					m.Role = ""
				}
				usedOuter[m.Ref] = true
			}
		}
	}
	c.VersionOnly = rapid.IntRange(0, 2).Draw(t, "versionOnly") == 0
	return c
}

func TestConvert(t *testing.T) {
	harness.Run(t, harness.Spec[Case]{
		Name: "convert", N: 4000,
		Rule:     "OSM data sets over a pool of up to 14 located nodes (present or missing; no / only-uninteresting / interesting tags), unlocated nodes, 0..5 ways (open, closed simple rings, area-tagged, short, through missing nodes, coordinates on way nodes or via node objects, shared nodes), 0..3 relations (route, multipolygon, boundary, restriction, site, untyped; way/node/relation members, present or absent), in a third of the cases a chained route (a node path cut into 2..8 consecutive member ways, pieces reversed and tagged at random, members shuffled), every metadata field independently present; each case converted under all 16 option combinations; oracle = the statement's rules evaluated on the model (unique feature ids naming input elements, node interest rule, way line/area geometry from resolvable coordinates, route segment multiset, type/id/tags/meta/relations properties) + metamorphic option relations against the default conversion + determinism (also after the caller wrote into the property maps of an earlier result, which must not touch the other features either) + input immutability; one timestamp in six lies before or at the Unix epoch or in year 9999; non-trivial = a way runs through an interestingly tagged node, or the data set has a relation",
		Gen:      genCase,
		Check:    check,
		Classify: classify,
		Floors:   map[string]float64{"way-through-tagged-node": 0.15, "relation:route": 0.2, "area-way": 0.15},
	})
}
