// Package c20 decides C20: osmapi calls hit the documented endpoint and map
// statuses to typed errors.
package c20

import (
	"context"
	"errors"
	"fmt"
	"io"
	"math"
	"net/http"
	"net/url"
	"sort"
	"strconv"
	"strings"
	"testing"
	"time"

	"github.com/paulmach/osm"
	"github.com/paulmach/osm/osmapi"
	"pgregory.net/rapid"

	"verif/internal/harness"
)

func TestMain(m *testing.M) { harness.Main(m, "C20") }

type Elem struct {
	Kind string // node way relation changeset note user
	ID   int64
	Ver  int
}

type Case struct {
	Endpoint   int
	ID         int64
	Version    int
	IDs        []int64
	BBox       [4]float64 // minlon minlat maxlon maxlat
	Query      string
	HasAt      bool
	AtUnix     int64
	AtZone     int // offset minutes east of UTC for the time value passed to At
	HasLimit   bool
	Limit      int
	HasClosed  bool
	Closed     int
	Base       int // 0 default (empty BaseURL), 1 custom host, 2 custom with path prefix
	Limiter    int // 0 none, 1 passing, 2 failing
	Status     int
	Body       []Elem
	ViaPackage bool // call the package-level wrapper (DefaultDatasource)
	NilClient  bool // the datasource has no Client of its own (falls back to DefaultDatasource.Client) but keeps its own Limiter and BaseURL
	// NewDS: the datasource comes from osmapi.NewDatasource(client), created
	// while DefaultDatasource carries another base URL and a failing limiter;
	// BaseURL / Limiter are then set on it only if the case asks for them.
	NewDS bool
	// AtNanos: fraction of a second on the time passed to At (the parameter
	// carries whole seconds: the second the instant lies in).
	AtNanos int
	// RetryAfter: the response carries a "Retry-After: 0" header.
	RetryAfter bool
}

type pollutedLimiter struct{}

var errPolluted = errors.New("harness: the limiter of DefaultDatasource was consulted")

func (pollutedLimiter) Wait(context.Context) error { return errPolluted }

var bases = []string{"", "http://osm.test/api/0.6", "https://mirror.test:8443/some/prefix/api/0.6", "http://osm.test/osm%20mirror/100%25/api/0.6"}

const defaultBase = "http://api.openstreetmap.org/api/0.6"

// the harness's transcription of API v0.6 (plus the documented at= extension)
type endpoint struct {
	name    string
	path    func(c *Case) string            // documented path below the base URL
	params  func(c *Case) map[string]string // documented query parameters besides options
	feature bool                            // takes FeatureOptions (at=)
	notes   bool                            // takes NotesOptions (limit=, closed=)
	kind    string                          // element kind returned
	single  bool
	whole   bool // returns the whole document
	change  bool // returns an osmChange
	call    func(ds *osmapi.Datasource, pkg bool, c *Case, fo []osmapi.FeatureOption, no []osmapi.NotesOption) (any, error)
}

func ids(c *Case) string {
	var s []string
	for _, i := range c.IDs {
		s = append(s, strconv.FormatInt(i, 10))
	}
	return strings.Join(s, ",")
}

func nodeIDs(c *Case) []osm.NodeID {
	var out []osm.NodeID
	for _, i := range c.IDs {
		out = append(out, osm.NodeID(i))
	}
	return out
}
func wayIDs(c *Case) []osm.WayID {
	var out []osm.WayID
	for _, i := range c.IDs {
		out = append(out, osm.WayID(i))
	}
	return out
}
func relIDs(c *Case) []osm.RelationID {
	var out []osm.RelationID
	for _, i := range c.IDs {
		out = append(out, osm.RelationID(i))
	}
	return out
}

func bounds(c *Case) *osm.Bounds {
	return &osm.Bounds{MinLon: c.BBox[0], MinLat: c.BBox[1], MaxLon: c.BBox[2], MaxLat: c.BBox[3]}
}

var bg = context.Background()

var endpoints = []endpoint{
	{name: "Node", path: func(c *Case) string { return fmt.Sprintf("/node/%d", c.ID) }, feature: true, kind: "node", single: true,
		call: func(ds *osmapi.Datasource, pkg bool, c *Case, fo []osmapi.FeatureOption, no []osmapi.NotesOption) (any, error) {
			if pkg {
				return osmapi.Node(bg, osm.NodeID(c.ID), fo...)
			}
			return ds.Node(bg, osm.NodeID(c.ID), fo...)
		}},
	{name: "Nodes", path: func(c *Case) string { return "/nodes" }, params: func(c *Case) map[string]string { return map[string]string{"nodes": ids(c)} }, feature: true, kind: "node",
		call: func(ds *osmapi.Datasource, pkg bool, c *Case, fo []osmapi.FeatureOption, no []osmapi.NotesOption) (any, error) {
			if pkg {
				return osmapi.Nodes(bg, nodeIDs(c), fo...)
			}
			return ds.Nodes(bg, nodeIDs(c), fo...)
		}},
	{name: "NodeVersion", path: func(c *Case) string { return fmt.Sprintf("/node/%d/%d", c.ID, c.Version) }, kind: "node", single: true,
		call: func(ds *osmapi.Datasource, pkg bool, c *Case, fo []osmapi.FeatureOption, no []osmapi.NotesOption) (any, error) {
			if pkg {
				return osmapi.NodeVersion(bg, osm.NodeID(c.ID), c.Version)
			}
			return ds.NodeVersion(bg, osm.NodeID(c.ID), c.Version)
		}},
	{name: "NodeHistory", path: func(c *Case) string { return fmt.Sprintf("/node/%d/history", c.ID) }, kind: "node",
		call: func(ds *osmapi.Datasource, pkg bool, c *Case, fo []osmapi.FeatureOption, no []osmapi.NotesOption) (any, error) {
			if pkg {
				return osmapi.NodeHistory(bg, osm.NodeID(c.ID))
			}
			return ds.NodeHistory(bg, osm.NodeID(c.ID))
		}},
	{name: "NodeWays", path: func(c *Case) string { return fmt.Sprintf("/node/%d/ways", c.ID) }, feature: true, kind: "way",
		call: func(ds *osmapi.Datasource, pkg bool, c *Case, fo []osmapi.FeatureOption, no []osmapi.NotesOption) (any, error) {
			if pkg {
				return osmapi.NodeWays(bg, osm.NodeID(c.ID), fo...)
			}
			return ds.NodeWays(bg, osm.NodeID(c.ID), fo...)
		}},
	{name: "NodeRelations", path: func(c *Case) string { return fmt.Sprintf("/node/%d/relations", c.ID) }, feature: true, kind: "relation",
		call: func(ds *osmapi.Datasource, pkg bool, c *Case, fo []osmapi.FeatureOption, no []osmapi.NotesOption) (any, error) {
			if pkg {
				return osmapi.NodeRelations(bg, osm.NodeID(c.ID), fo...)
			}
			return ds.NodeRelations(bg, osm.NodeID(c.ID), fo...)
		}},
	{name: "Way", path: func(c *Case) string { return fmt.Sprintf("/way/%d", c.ID) }, feature: true, kind: "way", single: true,
		call: func(ds *osmapi.Datasource, pkg bool, c *Case, fo []osmapi.FeatureOption, no []osmapi.NotesOption) (any, error) {
			if pkg {
				return osmapi.Way(bg, osm.WayID(c.ID), fo...)
			}
			return ds.Way(bg, osm.WayID(c.ID), fo...)
		}},
	{name: "Ways", path: func(c *Case) string { return "/ways" }, params: func(c *Case) map[string]string { return map[string]string{"ways": ids(c)} }, feature: true, kind: "way",
		call: func(ds *osmapi.Datasource, pkg bool, c *Case, fo []osmapi.FeatureOption, no []osmapi.NotesOption) (any, error) {
			if pkg {
				return osmapi.Ways(bg, wayIDs(c), fo...)
			}
			return ds.Ways(bg, wayIDs(c), fo...)
		}},
	{name: "WayVersion", path: func(c *Case) string { return fmt.Sprintf("/way/%d/%d", c.ID, c.Version) }, kind: "way", single: true,
		call: func(ds *osmapi.Datasource, pkg bool, c *Case, fo []osmapi.FeatureOption, no []osmapi.NotesOption) (any, error) {
			if pkg {
				return osmapi.WayVersion(bg, osm.WayID(c.ID), c.Version)
			}
			return ds.WayVersion(bg, osm.WayID(c.ID), c.Version)
		}},
	{name: "WayHistory", path: func(c *Case) string { return fmt.Sprintf("/way/%d/history", c.ID) }, kind: "way",
		call: func(ds *osmapi.Datasource, pkg bool, c *Case, fo []osmapi.FeatureOption, no []osmapi.NotesOption) (any, error) {
			if pkg {
				return osmapi.WayHistory(bg, osm.WayID(c.ID))
			}
			return ds.WayHistory(bg, osm.WayID(c.ID))
		}},
	{name: "WayRelations", path: func(c *Case) string { return fmt.Sprintf("/way/%d/relations", c.ID) }, feature: true, kind: "relation",
		call: func(ds *osmapi.Datasource, pkg bool, c *Case, fo []osmapi.FeatureOption, no []osmapi.NotesOption) (any, error) {
			if pkg {
				return osmapi.WayRelations(bg, osm.WayID(c.ID), fo...)
			}
			return ds.WayRelations(bg, osm.WayID(c.ID), fo...)
		}},
	{name: "WayFull", path: func(c *Case) string { return fmt.Sprintf("/way/%d/full", c.ID) }, feature: true, whole: true,
		call: func(ds *osmapi.Datasource, pkg bool, c *Case, fo []osmapi.FeatureOption, no []osmapi.NotesOption) (any, error) {
			if pkg {
				return osmapi.WayFull(bg, osm.WayID(c.ID), fo...)
			}
			return ds.WayFull(bg, osm.WayID(c.ID), fo...)
		}},
	{name: "Relation", path: func(c *Case) string { return fmt.Sprintf("/relation/%d", c.ID) }, feature: true, kind: "relation", single: true,
		call: func(ds *osmapi.Datasource, pkg bool, c *Case, fo []osmapi.FeatureOption, no []osmapi.NotesOption) (any, error) {
			if pkg {
				return osmapi.Relation(bg, osm.RelationID(c.ID), fo...)
			}
			return ds.Relation(bg, osm.RelationID(c.ID), fo...)
		}},
	{name: "Relations", path: func(c *Case) string { return "/relations" }, params: func(c *Case) map[string]string { return map[string]string{"relations": ids(c)} }, feature: true, kind: "relation",
		call: func(ds *osmapi.Datasource, pkg bool, c *Case, fo []osmapi.FeatureOption, no []osmapi.NotesOption) (any, error) {
			if pkg {
				return osmapi.Relations(bg, relIDs(c), fo...)
			}
			return ds.Relations(bg, relIDs(c), fo...)
		}},
	{name: "RelationVersion", path: func(c *Case) string { return fmt.Sprintf("/relation/%d/%d", c.ID, c.Version) }, kind: "relation", single: true,
		call: func(ds *osmapi.Datasource, pkg bool, c *Case, fo []osmapi.FeatureOption, no []osmapi.NotesOption) (any, error) {
			if pkg {
				return osmapi.RelationVersion(bg, osm.RelationID(c.ID), c.Version)
			}
			return ds.RelationVersion(bg, osm.RelationID(c.ID), c.Version)
		}},
	{name: "RelationRelations", path: func(c *Case) string { return fmt.Sprintf("/relation/%d/relations", c.ID) }, feature: true, kind: "relation",
		call: func(ds *osmapi.Datasource, pkg bool, c *Case, fo []osmapi.FeatureOption, no []osmapi.NotesOption) (any, error) {
			if pkg {
				return osmapi.RelationRelations(bg, osm.RelationID(c.ID), fo...)
			}
			return ds.RelationRelations(bg, osm.RelationID(c.ID), fo...)
		}},
	{name: "RelationHistory", path: func(c *Case) string { return fmt.Sprintf("/relation/%d/history", c.ID) }, kind: "relation",
		call: func(ds *osmapi.Datasource, pkg bool, c *Case, fo []osmapi.FeatureOption, no []osmapi.NotesOption) (any, error) {
			if pkg {
				return osmapi.RelationHistory(bg, osm.RelationID(c.ID))
			}
			return ds.RelationHistory(bg, osm.RelationID(c.ID))
		}},
	{name: "RelationFull", path: func(c *Case) string { return fmt.Sprintf("/relation/%d/full", c.ID) }, feature: true, whole: true,
		call: func(ds *osmapi.Datasource, pkg bool, c *Case, fo []osmapi.FeatureOption, no []osmapi.NotesOption) (any, error) {
			if pkg {
				return osmapi.RelationFull(bg, osm.RelationID(c.ID), fo...)
			}
			return ds.RelationFull(bg, osm.RelationID(c.ID), fo...)
		}},
	{name: "Changeset", path: func(c *Case) string { return fmt.Sprintf("/changeset/%d", c.ID) }, kind: "changeset", single: true,
		call: func(ds *osmapi.Datasource, pkg bool, c *Case, fo []osmapi.FeatureOption, no []osmapi.NotesOption) (any, error) {
			if pkg {
				return osmapi.Changeset(bg, osm.ChangesetID(c.ID))
			}
			return ds.Changeset(bg, osm.ChangesetID(c.ID))
		}},
	{name: "ChangesetWithDiscussion", path: func(c *Case) string { return fmt.Sprintf("/changeset/%d", c.ID) }, params: func(c *Case) map[string]string { return map[string]string{"include_discussion": "true"} }, kind: "changeset", single: true,
		call: func(ds *osmapi.Datasource, pkg bool, c *Case, fo []osmapi.FeatureOption, no []osmapi.NotesOption) (any, error) {
			if pkg {
				return osmapi.ChangesetWithDiscussion(bg, osm.ChangesetID(c.ID))
			}
			return ds.ChangesetWithDiscussion(bg, osm.ChangesetID(c.ID))
		}},
	{name: "ChangesetDownload", path: func(c *Case) string { return fmt.Sprintf("/changeset/%d/download", c.ID) }, change: true,
		call: func(ds *osmapi.Datasource, pkg bool, c *Case, fo []osmapi.FeatureOption, no []osmapi.NotesOption) (any, error) {
			if pkg {
				return osmapi.ChangesetDownload(bg, osm.ChangesetID(c.ID))
			}
			return ds.ChangesetDownload(bg, osm.ChangesetID(c.ID))
		}},
	{name: "Note", path: func(c *Case) string { return fmt.Sprintf("/notes/%d", c.ID) }, kind: "note", single: true,
		call: func(ds *osmapi.Datasource, pkg bool, c *Case, fo []osmapi.FeatureOption, no []osmapi.NotesOption) (any, error) {
			if pkg {
				return osmapi.Note(bg, osm.NoteID(c.ID))
			}
			return ds.Note(bg, osm.NoteID(c.ID))
		}},
	{name: "Notes", path: func(c *Case) string { return "/notes" }, params: func(c *Case) map[string]string { return map[string]string{"bbox": "BBOX"} }, notes: true, kind: "note",
		call: func(ds *osmapi.Datasource, pkg bool, c *Case, fo []osmapi.FeatureOption, no []osmapi.NotesOption) (any, error) {
			if pkg {
				return osmapi.Notes(bg, bounds(c), no...)
			}
			return ds.Notes(bg, bounds(c), no...)
		}},
	{name: "NotesSearch", path: func(c *Case) string { return "/notes/search" }, params: func(c *Case) map[string]string { return map[string]string{"q": c.Query} }, notes: true, kind: "note",
		call: func(ds *osmapi.Datasource, pkg bool, c *Case, fo []osmapi.FeatureOption, no []osmapi.NotesOption) (any, error) {
			if pkg {
				return osmapi.NotesSearch(bg, c.Query, no...)
			}
			return ds.NotesSearch(bg, c.Query, no...)
		}},
	{name: "User", path: func(c *Case) string { return fmt.Sprintf("/user/%d", c.ID) }, kind: "user", single: true,
		call: func(ds *osmapi.Datasource, pkg bool, c *Case, fo []osmapi.FeatureOption, no []osmapi.NotesOption) (any, error) {
			if pkg {
				return osmapi.User(bg, osm.UserID(c.ID))
			}
			return ds.User(bg, osm.UserID(c.ID))
		}},
	{name: "Map", path: func(c *Case) string { return "/map" }, params: func(c *Case) map[string]string { return map[string]string{"bbox": "BBOX"} }, feature: true, whole: true,
		call: func(ds *osmapi.Datasource, pkg bool, c *Case, fo []osmapi.FeatureOption, no []osmapi.NotesOption) (any, error) {
			if pkg {
				return osmapi.Map(bg, bounds(c), fo...)
			}
			return ds.Map(bg, bounds(c), fo...)
		}},
}

type recorder struct {
	seq      int
	waitAt   []int
	reqAt    []int
	reqs     []*http.Request
	status   int
	body     string
	failWait bool
	retry    bool
	opened   int // response bodies handed out
	closed   int // of which closed
}

// trackedBody counts Close calls: every response body has to be closed, or the
// connection behind it is never reused.
type trackedBody struct {
	io.Reader
	rec    *recorder
	closed bool
}

func (b *trackedBody) Close() error {
	if !b.closed {
		b.closed = true
		b.rec.closed++
	}
	return nil
}

var errLimiter = errors.New("harness: limiter says no")

func (r *recorder) Wait(ctx context.Context) error {
	r.seq++
	r.waitAt = append(r.waitAt, r.seq)
	if r.failWait {
		return errLimiter
	}
	return nil
}

func (r *recorder) RoundTrip(req *http.Request) (*http.Response, error) {
	r.seq++
	r.reqAt = append(r.reqAt, r.seq)
	r.reqs = append(r.reqs, req)
	h := http.Header{"Content-Type": {"text/xml"}}
	if r.retry {
		h.Set("Retry-After", "0")
	}
	r.opened++
	return &http.Response{StatusCode: r.status, Status: fmt.Sprintf("%d X", r.status), Body: &trackedBody{Reader: strings.NewReader(r.body), rec: r}, Header: h, Request: req, ProtoMajor: 1, ProtoMinor: 1}, nil
}

func elemXML(e Elem) string {
	switch e.Kind {
	case "node":
		return fmt.Sprintf(`<node id="%d" version="%d" visible="true" lat="1.5" lon="2.5"><tag k="a" v="b"/></node>`, e.ID, e.Ver)
	case "way":
		return fmt.Sprintf(`<way id="%d" version="%d" visible="true"><nd ref="1"/><nd ref="2"/></way>`, e.ID, e.Ver)
	case "relation":
		return fmt.Sprintf(`<relation id="%d" version="%d" visible="true"><member type="way" ref="3" role="outer"/></relation>`, e.ID, e.Ver)
	case "changeset":
		return fmt.Sprintf(`<changeset id="%d" user="u" uid="7" open="false" created_at="2015-01-01T00:00:00Z"><tag k="comment" v="c"/></changeset>`, e.ID)
	case "note":
		return fmt.Sprintf(`<note lon="1.0" lat="2.0"><id>%d</id><status>open</status><date_created>2015-01-01 00:00:00 UTC</date_created></note>`, e.ID)
	case "user":
		return fmt.Sprintf(`<user id="%d" display_name="n" account_created="2015-01-01T00:00:00Z"></user>`, e.ID)
	}
	return ""
}

func (c *Case) bodyXML(change bool) string {
	var sb strings.Builder
	sb.WriteString(`<?xml version="1.0" encoding="UTF-8"?>` + "\n")
	if change {
		sb.WriteString(`<osmChange version="0.6" generator="x">`)
		for i, e := range c.Body {
			if e.Kind != "node" && e.Kind != "way" && e.Kind != "relation" {
				continue
			}
			blk := []string{"create", "modify", "delete"}[i%3]
			sb.WriteString("<" + blk + ">" + elemXML(e) + "</" + blk + ">")
		}
		sb.WriteString(`</osmChange>`)
		return sb.String()
	}
	sb.WriteString(`<osm version="0.6" generator="x" copyright="c" attribution="a" license="l">`)
	for _, e := range c.Body {
		sb.WriteString(elemXML(e))
	}
	sb.WriteString(`</osm>`)
	return sb.String()
}

func idsOf(v any) (kind string, out []Elem) {
	switch x := v.(type) {
	case *osm.Node:
		if x != nil {
			out = append(out, Elem{"node", int64(x.ID), x.Version})
		}
	case osm.Nodes:
		for _, n := range x {
			out = append(out, Elem{"node", int64(n.ID), n.Version})
		}
	case *osm.Way:
		if x != nil {
			out = append(out, Elem{"way", int64(x.ID), x.Version})
		}
	case osm.Ways:
		for _, n := range x {
			out = append(out, Elem{"way", int64(n.ID), n.Version})
		}
	case *osm.Relation:
		if x != nil {
			out = append(out, Elem{"relation", int64(x.ID), x.Version})
		}
	case osm.Relations:
		for _, n := range x {
			out = append(out, Elem{"relation", int64(n.ID), n.Version})
		}
	case *osm.Changeset:
		if x != nil {
			out = append(out, Elem{"changeset", int64(x.ID), 0})
		}
	case *osm.Note:
		if x != nil {
			out = append(out, Elem{"note", int64(x.ID), 0})
		}
	case osm.Notes:
		for _, n := range x {
			out = append(out, Elem{"note", int64(n.ID), 0})
		}
	case *osm.User:
		if x != nil {
			out = append(out, Elem{"user", int64(x.ID), 0})
		}
	case *osm.OSM:
		if x != nil {
			for _, n := range x.Nodes {
				out = append(out, Elem{"node", int64(n.ID), n.Version})
			}
			for _, n := range x.Ways {
				out = append(out, Elem{"way", int64(n.ID), n.Version})
			}
			for _, n := range x.Relations {
				out = append(out, Elem{"relation", int64(n.ID), n.Version})
			}
			for _, n := range x.Changesets {
				out = append(out, Elem{"changeset", int64(n.ID), 0})
			}
			for _, n := range x.Notes {
				out = append(out, Elem{"note", int64(n.ID), 0})
			}
			for _, n := range x.Users {
				out = append(out, Elem{"user", int64(n.ID), 0})
			}
		}
	case *osm.Change:
		if x != nil {
			for _, o := range []*osm.OSM{x.Create, x.Modify, x.Delete} {
				_, es := idsOf(o)
				out = append(out, es...)
			}
		}
	}
	return "", out
}

func isNilResult(v any) bool {
	_, es := idsOf(v)
	if len(es) > 0 {
		return false
	}
	switch x := v.(type) {
	case *osm.OSM:
		return x == nil
	case *osm.Change:
		return x == nil
	}
	return true
}

func check(c Case) error {
	ep := endpoints[c.Endpoint]
	rec := &recorder{status: c.Status, body: c.bodyXML(ep.change), failWait: c.Limiter == 2, retry: c.RetryAfter}
	ds := &osmapi.Datasource{BaseURL: bases[c.Base], Client: &http.Client{Transport: rec}}
	if c.Limiter != 0 {
		ds.Limiter = rec
	}
	if c.NewDS && !c.ViaPackage && !c.NilClient {
		old := *osmapi.DefaultDatasource
		defer func() { *osmapi.DefaultDatasource = old }()
		osmapi.DefaultDatasource.BaseURL = "http://polluted.test/other/api/0.6"
		osmapi.DefaultDatasource.Limiter = pollutedLimiter{}
		ds = osmapi.NewDatasource(&http.Client{Transport: rec})
		if c.Base != 0 {
			ds.BaseURL = bases[c.Base]
		}
		if c.Limiter != 0 {
			ds.Limiter = rec
		}
	}
	if c.ViaPackage {
		old := *osmapi.DefaultDatasource
		defer func() { *osmapi.DefaultDatasource = old }()
		osmapi.DefaultDatasource.Client = ds.Client
		osmapi.DefaultDatasource.Limiter = ds.Limiter
		osmapi.DefaultDatasource.BaseURL = bases[c.Base]
	} else if c.NilClient {
		old := *osmapi.DefaultDatasource
		defer func() { *osmapi.DefaultDatasource = old }()
		osmapi.DefaultDatasource.Client = ds.Client
		osmapi.DefaultDatasource.Limiter = nil
		ds.Client = nil
	}
	var fo []osmapi.FeatureOption
	var no []osmapi.NotesOption
	atTime := time.Unix(c.AtUnix, int64(c.AtNanos)).In(time.FixedZone("z", c.AtZone*60))
	if ep.feature && c.HasAt {
		fo = append(fo, osmapi.At(atTime))
	}
	limitValid := true
	if ep.notes {
		if c.HasLimit {
			no = append(no, osmapi.Limit(c.Limit))
			limitValid = c.Limit >= 1 && c.Limit <= 10000
		}
		if c.HasClosed {
			no = append(no, osmapi.MaxDaysClosed(c.Closed))
		}
	}
	res, err := ep.call(ds, c.ViaPackage, &c, fo, no)
	if c.NilClient && !c.ViaPackage {
		// a call only reads its datasource; the fallback to the default client
		// is looked up per call, so a client installed later is the one used
		if ds.Client != nil {
			return harness.Failf("C20/receiver-modified", "%s: the call stored a client in the datasource it was called on", ep.name)
		}
		rec2 := &recorder{status: c.Status, body: rec.body, failWait: rec.failWait, retry: rec.retry}
		osmapi.DefaultDatasource.Client = &http.Client{Transport: rec2}
		n1 := len(rec.reqs)
		saved := *rec
		ep.call(ds, false, &c, fo, no)
		nOld := len(rec.reqs)
		*rec = saved // the judgement below is about the first call
		if nOld != n1 || len(rec2.reqs) != n1 {
			return harness.Failf("C20/stale-default-client", "%s on a datasource without a client of its own: first call sent %d request(s) through the default client; after the default client was replaced a second call sent %d through the old and %d through the new one", ep.name, n1, nOld-n1, len(rec2.reqs))
		}
	}

	if !limitValid {
		if err == nil || len(rec.reqs) != 0 {
			return harness.Failf("C20/invalid-limit", "%s with Limit(%d): err=%v, %d requests sent", ep.name, c.Limit, err, len(rec.reqs))
		}
		return nil
	}
	// limiter
	if c.Limiter == 2 {
		if len(rec.reqs) != 0 {
			return harness.Failf("C20/limiter-ignored", "%s: request sent although the rate limiter failed", ep.name)
		}
		if !errors.Is(err, errLimiter) {
			return harness.Failf("C20/limiter-error", "%s: failing limiter but error is %v", ep.name, err)
		}
		if !isNilResult(res) {
			return harness.Failf("C20/partial-data", "%s: data returned although the limiter failed", ep.name)
		}
		return nil
	}
	if len(rec.reqs) != 1 {
		return harness.Failf("C20/request-count", "%s issued %d requests (err=%v)", ep.name, len(rec.reqs), err)
	}
	if rec.closed != rec.opened {
		return harness.Failf("C20/body-not-closed", "%s (status %d): %d response bodies received, %d closed", ep.name, c.Status, rec.opened, rec.closed)
	}
	if c.Limiter == 1 {
		if len(rec.waitAt) != 1 || rec.waitAt[0] > rec.reqAt[0] {
			return harness.Failf("C20/limiter-order", "%s: limiter waits at %v, request at %v (must wait exactly once, before the request)", ep.name, rec.waitAt, rec.reqAt)
		}
	}
	req := rec.reqs[0]
	if req.Method != http.MethodGet {
		return harness.Failf("C20/method", "%s used %s", ep.name, req.Method)
	}
	base := bases[c.Base]
	if base == "" {
		base = defaultBase
	}
	bu, _ := url.Parse(base)
	if req.URL.Scheme != bu.Scheme || req.URL.Host != bu.Host {
		return harness.Failf("C20/base-url", "%s went to %s://%s, base URL is %s", ep.name, req.URL.Scheme, req.URL.Host, base)
	}
	if want := bu.Path + ep.path(&c); req.URL.Path != want {
		return harness.Failf("C20/path", "%s requested path %q, documented path %q", ep.name, req.URL.Path, want)
	}
	// query parameters as a multiset
	want := map[string]string{}
	if ep.params != nil {
		for k, v := range ep.params(&c) {
			want[k] = v
		}
	}
	if ep.feature && c.HasAt {
		want["at"] = time.Unix(c.AtUnix, 0).UTC().Format("2006-01-02T15:04:05Z")
	}
	if ep.notes && c.HasLimit {
		want["limit"] = strconv.Itoa(c.Limit)
	}
	if ep.notes && c.HasClosed {
		want["closed"] = strconv.Itoa(c.Closed)
	}
	got := map[string][]string{}
	for _, kv := range strings.Split(req.URL.RawQuery, "&") {
		if kv == "" {
			continue
		}
		k, v, _ := strings.Cut(kv, "=")
		dk, e1 := url.QueryUnescape(k)
		dv, e2 := url.QueryUnescape(v)
		if e1 != nil || e2 != nil {
			return harness.Failf("C20/query-encoding", "%s: query %q does not decode", ep.name, req.URL.RawQuery)
		}
		got[dk] = append(got[dk], dv)
	}
	var keys []string
	for k := range got {
		keys = append(keys, k)
	}
	sort.Strings(keys)
	for _, k := range keys {
		w, ok := want[k]
		if !ok || len(got[k]) != 1 {
			return harness.Failf("C20/query", "%s: unexpected or repeated query parameter %q=%v in %q (documented parameters %v)", ep.name, k, got[k], req.URL.RawQuery, want)
		}
		g := got[k][0]
		if w == "BBOX" {
			parts := strings.Split(g, ",")
			if len(parts) != 4 {
				return harness.Failf("C20/query", "%s: bbox=%q", ep.name, g)
			}
			for i, p := range parts {
				f, err := strconv.ParseFloat(p, 64)
				if err != nil || math.Abs(f-c.BBox[i]) > 1e-6 {
					return harness.Failf("C20/query", "%s: bbox=%q, bounds (minlon,minlat,maxlon,maxlat) %v", ep.name, g, c.BBox)
				}
			}
		} else if g != w {
			return harness.Failf("C20/query", "%s: query parameter %s=%q, documented value %q (raw query %q)", ep.name, k, g, w, req.URL.RawQuery)
		}
	}
	for k := range want {
		if _, ok := got[k]; !ok {
			return harness.Failf("C20/query", "%s: documented query parameter %q missing from %q", ep.name, k, req.URL.RawQuery)
		}
	}
	// status mapping
	reqURL := req.URL.String()
	if c.Status != 200 {
		if err == nil {
			return harness.Failf("C20/status-accepted", "%s: status %d returned without error", ep.name, c.Status)
		}
		if !isNilResult(res) {
			return harness.Failf("C20/partial-data", "%s: status %d but data was returned", ep.name, c.Status)
		}
		var gotURL string
		okType := false
		switch e := err.(type) {
		case *osmapi.NotFoundError:
			okType, gotURL = c.Status == 404, e.URL
		case *osmapi.ForbiddenError:
			okType, gotURL = c.Status == 403, e.URL
		case *osmapi.GoneError:
			okType, gotURL = c.Status == 410, e.URL
		case *osmapi.RequestURITooLongError:
			okType, gotURL = c.Status == 414, e.URL
		case *osmapi.UnexpectedStatusCodeError:
			okType, gotURL = c.Status != 404 && c.Status != 403 && c.Status != 410 && c.Status != 414 && e.Code == c.Status, e.URL
		}
		if !okType {
			return harness.Failf("C20/status-mapping", "%s: status %d mapped to %T (%v)", ep.name, c.Status, err, err)
		}
		if gotURL != reqURL {
			return harness.Failf("C20/error-url", "%s: error carries URL %q, request was %q", ep.name, gotURL, reqURL)
		}
		if ds.NotFound(err) != (c.Status == 404) {
			return harness.Failf("C20/notfound-test", "%s: NotFound(err) = %v for status %d", ep.name, ds.NotFound(err), c.Status)
		}
		return nil
	}
	// 200: exactly the elements of the response
	var wantElems []Elem
	for _, e := range c.Body {
		switch {
		case ep.change:
			if e.Kind == "node" || e.Kind == "way" || e.Kind == "relation" {
				wantElems = append(wantElems, e)
			}
		case ep.whole:
			wantElems = append(wantElems, Elem{e.Kind, e.ID, verOf(e)})
		case e.Kind == ep.kind:
			wantElems = append(wantElems, Elem{e.Kind, e.ID, verOf(e)})
		}
	}
	if ep.single && len(wantElems) != 1 {
		if err == nil {
			return harness.Failf("C20/single-element", "%s: response holds %d %ss but the call succeeded", ep.name, len(wantElems), ep.kind)
		}
		if !isNilResult(res) {
			return harness.Failf("C20/partial-data", "%s: error together with data", ep.name)
		}
		return nil
	}
	if err != nil {
		return harness.Failf("C20/unexpected-error", "%s: status 200 but error %v", ep.name, err)
	}
	_, gotElems := idsOf(res)
	if ep.whole || ep.change {
		key := func(e Elem) string { return fmt.Sprintf("%s/%d/%d", e.Kind, e.ID, e.Ver) }
		// containers group by kind (and by action for changes): compare per kind, in order
		perKind := func(es []Elem) map[string][]string {
			m := map[string][]string{}
			for _, e := range es {
				m[e.Kind] = append(m[e.Kind], key(e))
			}
			return m
		}
		if ep.change {
			// order inside a change is create, modify, delete: compare as multisets per kind
			a, b := perKind(gotElems), perKind(wantElems)
			for k := range a {
				sort.Strings(a[k])
			}
			for k := range b {
				sort.Strings(b[k])
			}
			if fmt.Sprint(a) != fmt.Sprint(b) {
				return harness.Failf("C20/result", "%s returned %v, the response holds %v", ep.name, a, b)
			}
		} else if fmt.Sprint(perKind(gotElems)) != fmt.Sprint(perKind(wantElems)) {
			return harness.Failf("C20/result", "%s returned %v, the response holds %v", ep.name, gotElems, wantElems)
		}
		return nil
	}
	if fmt.Sprint(gotElems) != fmt.Sprint(wantElems) {
		return harness.Failf("C20/result", "%s returned %v, the response holds %v of kind %s", ep.name, gotElems, wantElems, ep.kind)
	}
	return nil
}

func verOf(e Elem) int {
	if e.Kind == "node" || e.Kind == "way" || e.Kind == "relation" {
		return e.Ver
	}
	return 0
}

var statuses = []int{200, 200, 200, 200, 200, 200, 201, 202, 203, 204, 206, 400, 401, 403, 404, 405, 409, 410, 412, 414, 429, 500, 502, 503, 509}

func genCase(t *rapid.T) Case {
	c := Case{Endpoint: rapid.IntRange(0, len(endpoints)-1).Draw(t, "endpoint")}
	c.ID = rapid.SampledFrom([]int64{0, 1, 7, 123456789, 1 << 40}).Draw(t, "id")
	c.Version = rapid.IntRange(0, 70).Draw(t, "version")
	n := rapid.IntRange(0, 40).Draw(t, "nids")
	if rapid.IntRange(0, 11).Draw(t, "manyIDs") == 0 {
		n = rapid.SampledFrom([]int{600, 745, 800, 2000}).Draw(t, "nidsMany") // request URLs of 6..20 KB
	}
	for i := 0; i < n; i++ {
		c.IDs = append(c.IDs, int64(rapid.IntRange(1, 1<<31).Draw(t, "idn")))
	}
	for i := range c.BBox {
		c.BBox[i] = float64(rapid.IntRange(-180000000, 180000000).Draw(t, "bbox")) / 1e6
	}
	c.Query = rapid.SampledFrom([]string{"", "spam", "two words", "a&b=c", "ünï/cödé?", "100% #1 + x", "q=1&limit=5"}).Draw(t, "q")
	c.HasAt = rapid.Bool().Draw(t, "hasAt")
	c.AtUnix = int64(rapid.IntRange(1000000000, 1700000000).Draw(t, "at"))
	c.AtZone = rapid.SampledFrom([]int{0, 0, 60, -300, 330, 765}).Draw(t, "zone")
	c.AtNanos = rapid.SampledFrom([]int{0, 0, 1, 499999999, 500000000, 999999999}).Draw(t, "atNanos")
	c.RetryAfter = rapid.IntRange(0, 3).Draw(t, "retryAfter") == 0
	c.HasLimit = rapid.Bool().Draw(t, "hasLimit")
	c.Limit = rapid.SampledFrom([]int{1, 100, 9999, 10000, 0, -1, 10001, 50}).Draw(t, "limit")
	c.HasClosed = rapid.Bool().Draw(t, "hasClosed")
	c.Closed = rapid.IntRange(-1, 30).Draw(t, "closed")
	c.Base = rapid.IntRange(0, 3).Draw(t, "base")
	c.Limiter = rapid.SampledFrom([]int{0, 1, 1, 2}).Draw(t, "limiter")
	c.Status = rapid.SampledFrom(statuses).Draw(t, "status")
	c.ViaPackage = rapid.IntRange(0, 3).Draw(t, "pkg") == 0
	c.NilClient = !c.ViaPackage && rapid.IntRange(0, 3).Draw(t, "nilClient") == 0
	c.NewDS = !c.ViaPackage && !c.NilClient && rapid.IntRange(0, 3).Draw(t, "newDS") == 0
	ep := endpoints[c.Endpoint]
	// response body: 0, 1 or many elements of the requested kind plus other kinds
	kinds := []string{"node", "way", "relation", "changeset", "note", "user"}
	want := rapid.SampledFrom([]int{0, 1, 1, 1, 2, 5}).Draw(t, "nwanted")
	for i := 0; i < want; i++ {
		k := ep.kind
		if k == "" {
			k = rapid.SampledFrom(kinds[:3]).Draw(t, "k")
		}
		c.Body = append(c.Body, Elem{k, int64(rapid.IntRange(1, 1000).Draw(t, "eid")), rapid.IntRange(1, 9).Draw(t, "ever")})
	}
	others := rapid.IntRange(0, 3).Draw(t, "nother")
	for i := 0; i < others; i++ {
		e := Elem{rapid.SampledFrom(kinds).Draw(t, "ok"), int64(rapid.IntRange(1, 1000).Draw(t, "oid")), rapid.IntRange(1, 9).Draw(t, "over")}
		at := rapid.IntRange(0, len(c.Body)).Draw(t, "oat")
		c.Body = append(c.Body[:at], append([]Elem{e}, c.Body[at:]...)...)
	}
	return c
}

func TestEndpoints(t *testing.T) {
	harness.Run(t, harness.Spec[Case]{
		Name: "endpoints", N: 20000,
		Rule:  "all 26 public Datasource calls (a quarter through the package-level wrappers) x ids (0, 1, large, lists of 0..40, one case in twelve 600..2000 ids giving request URLs of 6..20 KB) x At option with times in several zones and with fractions of a second (at= names the second the instant lies in) x responses with or without a Retry-After header x notes options (Limit in and out of [1,10000], MaxDaysClosed) x base URL (default, custom, custom with path prefix, custom with percent-escapes in its path) x datasource construction (struct literal, no Client of its own, package-level wrappers, osmapi.NewDatasource while DefaultDatasource carries another base URL and a failing limiter; datasources without a client are called twice with the default client replaced in between) x limiter (none, passing, failing) x status in {200,201,202,203,204,206,400,401,403,404,405,409,410,412,414,429,500,502,503,509} x response documents with 0,1,many elements of the requested kind mixed with other kinds, served by an in-process http.RoundTripper; oracle = the harness's transcription of API v0.6: exactly one GET, path and decoded query-parameter multiset (bbox within 1e-6, at= in UTC layout, ids comma-joined, q decoded), limiter waited exactly once strictly before the request and no request when it fails, 200 => exactly the elements of the requested kind in order, single-element calls reject != 1, typed errors per status carrying the request URL, NotFound only for 404, never partial data; non-trivial = non-200 status, or a list call with >= 2 ids, or an option present",
		Gen:   genCase,
		Check: check,
		Classify: func(c Case) (bool, []string) {
			ep := endpoints[c.Endpoint]
			opt := (ep.feature && c.HasAt) || (ep.notes && (c.HasLimit || c.HasClosed))
			cl := []string{"ep:" + ep.name}
			if c.Status != 200 {
				cl = append(cl, "non-200")
			}
			if opt {
				cl = append(cl, "option")
			}
			if c.ViaPackage {
				cl = append(cl, "package-wrapper")
			}
			if c.NilClient {
				cl = append(cl, "nil-client-fallback")
			}
			return c.Status != 200 || opt || (ep.params != nil && len(c.IDs) >= 2 && strings.HasSuffix(ep.name, "s")), cl
		},
		Floors: map[string]float64{"non-200": 0.5, "option": 0.15},
	})
}

// every endpoint x every status, deterministically
func TestStatusMatrix(t *testing.T) {
	harness.Enumerate(t, "status-matrix", "exhaustive: every endpoint (26) x every status of the list x limiter in {none, passing} with a one-element response; non-trivial = non-200 status", true, func(e *harness.Enum) {
		seen := map[int]bool{}
		for ei := range endpoints {
			for _, st := range statuses {
				if seen[st*100+ei] {
					continue
				}
				seen[st*100+ei] = true
				for lim := 0; lim < 2; lim++ {
					k := endpoints[ei].kind
					if k == "" {
						k = "node"
					}
					c := Case{Endpoint: ei, ID: 5, Version: 2, IDs: []int64{1, 2, 3}, BBox: [4]float64{1, 2, 3, 4}, Query: "x y", Status: st, Limiter: lim, Base: 1, Body: []Elem{{k, 5, 2}}}
					e.Case(st != 200, fmt.Sprint(ei, st, lim), "ep:"+endpoints[ei].name)
					if err := check(c); err != nil {
						f := err.(*harness.Failure)
						e.Fail(f.Sig, c, "%s", f.Msg)
						return
					}
				}
			}
		}
		e.Sample(map[string]any{"endpoints": len(endpoints), "statuses": statuses})
	})
}
