// Package c02 decides C02: parallel PBF decoding preserves file order under
// every schedule. Built with -race; the schedule is perturbed from the places a
// caller owns (reader, filter callbacks, consumer loop, GOMAXPROCS).
package c02

import (
	"context"
	"io"
	"runtime"
	"sync/atomic"
	"testing"
	"time"

	"github.com/paulmach/osm"
	"github.com/paulmach/osm/osmpbf"
	"pgregory.net/rapid"

	"verif/internal/harness"
	"verif/internal/pbfgen"
)

func TestMain(m *testing.M) { harness.Main(m, "C02") }

// delay classes: 0 none, 1 yield, 2 50us, 3 500us, 4 3ms
var delayOf = []time.Duration{0, -1, 50 * time.Microsecond, 500 * time.Microsecond, 3 * time.Millisecond}

func pause(class int) {
	switch d := delayOf[class]; {
	case d < 0:
		runtime.Gosched()
	case d > 0:
		time.Sleep(d)
	}
}

type Case struct {
	File        *pbfgen.File
	Procs       int
	BlockDelay  []int // per block delay class, applied inside the filter callback on the block's first element
	Chunk       int   // bytes per Read (0 = whole remaining input)
	ReadDelay   int   // delay class applied every ReadEvery reads
	ReadEvery   int
	ScanDelay   int // delay class applied every ScanEvery objects in the consumer
	ScanEvery   int
	GoMaxProcs  int
	Measure     bool // record block completion order with atomics (adds happens-before edges between decoders); false = callbacks only sleep
}

type chunkReader struct {
	data  []byte
	chunk int
	every int
	class int
	n     int
}

func (r *chunkReader) Read(p []byte) (int, error) {
	if len(r.data) == 0 {
		return 0, io.EOF
	}
	r.n++
	if r.every > 0 && r.n%r.every == 0 {
		pause(r.class)
	}
	n := len(p)
	if r.chunk > 0 && n > r.chunk {
		n = r.chunk
	}
	if n > len(r.data) {
		n = len(r.data)
	}
	copy(p, r.data[:n])
	r.data = r.data[n:]
	return n, nil
}

var lastInversion bool

func check(c Case) error {
	enc := c.File.Encode()
	want, blockOf := c.File.Expected()
	nb := len(c.File.Blocks)
	lastIdx := make([]int64, nb) // id of the last element of every block
	firstIdx := make([]int64, nb)
	for i := range firstIdx {
		firstIdx[i] = -1
	}
	idOf := func(o osm.Object) int64 {
		switch x := o.(type) {
		case *osm.Node:
			return int64(x.ID)
		case *osm.Way:
			return int64(x.ID)
		case *osm.Relation:
			return int64(x.ID)
		}
		return 0
	}
	for i, o := range want {
		b := blockOf[i]
		if firstIdx[b] < 0 {
			firstIdx[b] = idOf(o)
		}
		lastIdx[b] = idOf(o)
	}

	old := runtime.GOMAXPROCS(c.GoMaxProcs)
	defer runtime.GOMAXPROCS(old)

	var done int64
	finished := make([]int64, nb)
	hook := func(id int64) {
		b := int(id/1000000) - 1
		if b < 0 || b >= nb {
			return
		}
		if id == firstIdx[b] && b < len(c.BlockDelay) {
			pause(c.BlockDelay[b])
		}
		if c.Measure && id == lastIdx[b] {
			atomic.StoreInt64(&finished[b], atomic.AddInt64(&done, 1))
		}
	}
	r := &chunkReader{data: enc.Data, chunk: c.Chunk, every: c.ReadEvery, class: c.ReadDelay}
	s := osmpbf.New(context.Background(), r, c.Procs)
	s.FilterNode = func(n *osm.Node) bool { hook(int64(n.ID)); return true }
	s.FilterWay = func(w *osm.Way) bool { hook(int64(w.ID)); return true }
	s.FilterRelation = func(r *osm.Relation) bool { hook(int64(r.ID)); return true }

	var got []osm.Object
	var snaps []string
	for s.Scan() {
		o := s.Object()
		got = append(got, o)
		snaps = append(snaps, pbfgen.Snap(o))
		if c.ScanEvery > 0 && len(got)%c.ScanEvery == 0 {
			pause(c.ScanDelay)
		}
	}
	err := s.Err()
	s.Close()
	lastInversion = false
	if c.Measure {
		for i := 1; i < nb; i++ {
			fi, fp := atomic.LoadInt64(&finished[i]), atomic.LoadInt64(&finished[i-1])
			if fi != 0 && fp != 0 && fi < fp {
				lastInversion = true
			}
		}
	}
	if err != nil {
		return harness.Failf("C02/scan-error", "scan of a valid file failed after %d objects (procs=%d): %v", len(got), c.Procs, err)
	}
	if d := pbfgen.DiffSeq(got, want); d != "" {
		return harness.Failf("C02/order-or-content", "procs=%d gomaxprocs=%d blocks=%d: %s", c.Procs, c.GoMaxProcs, nb, d)
	}
	for i, o := range got {
		if now := pbfgen.Snap(o); now != snaps[i] {
			return harness.Failf("C02/modified-after-return", "object %d changed after it was returned:\n was %s\n now %s", i, snaps[i], now)
		}
	}
	return nil
}

func distinctDelays(c Case) bool {
	seen := map[int]bool{}
	for _, d := range c.BlockDelay {
		seen[d] = true
	}
	return len(seen) >= 2
}

func TestSchedules(t *testing.T) {
	harness.Run(t, harness.Spec[Case]{
		Name: "schedules", N: 250,
		Rule: "files of 5..60 small non-empty blocks (all element kinds, sequential ids so an id names its block) x procs 1..32 (weighted to more decoders than blocks and more than the 10-slot channel budget) x a perturbation plan drawn by rapid: per-block decode delay in {0, yield, 50us, 500us, 3ms} injected from always-true filter callbacks, reader chunk size (1 byte .. whole file) with read delays, consumer delay per Scan, GOMAXPROCS in {1,2,4,16}; oracle = sequence equals the model (which C01 ties to the procs=1 scan), deep snapshot at receipt == at end, zero race-detector reports (the process runs under -race with halt_on_error); non-trivial = procs>=2 and either a measured completion inversion (a later block finished decoding before an earlier one) or, in the no-atomics mode, a plan with at least two different block delays",
		Gen: func(t *rapid.T) Case {
			f := pbfgen.GenFile(t, pbfgen.Opt{MinBlocks: 5, MaxBlocks: 60, NonEmpty: true, SeqIDs: true, Small: true})
			c := Case{File: f}
			switch rapid.IntRange(0, 3).Draw(t, "procsMode") {
			case 0:
				c.Procs = rapid.IntRange(1, 4).Draw(t, "procs")
			case 1:
				c.Procs = rapid.IntRange(11, 32).Draw(t, "procs")
			default:
				c.Procs = rapid.IntRange(2, 32).Draw(t, "procs")
			}
			for range f.Blocks {
				c.BlockDelay = append(c.BlockDelay, rapid.SampledFrom([]int{0, 0, 1, 2, 3, 3, 4}).Draw(t, "bd"))
			}
			c.Chunk = rapid.SampledFrom([]int{0, 1, 3, 64, 1000}).Draw(t, "chunk")
			c.ReadEvery = rapid.SampledFrom([]int{0, 1, 7, 50}).Draw(t, "readEvery")
			c.ReadDelay = rapid.IntRange(0, 3).Draw(t, "readDelay")
			if c.Chunk == 1 && c.ReadEvery == 1 {
				c.ReadEvery = 50 // keep single-byte reads from sleeping on every byte
			}
			c.ScanEvery = rapid.SampledFrom([]int{0, 1, 5}).Draw(t, "scanEvery")
			c.ScanDelay = rapid.IntRange(0, 3).Draw(t, "scanDelay")
			c.GoMaxProcs = rapid.SampledFrom([]int{1, 2, 4, 16}).Draw(t, "gomaxprocs")
			c.Measure = rapid.IntRange(0, 2).Draw(t, "measure") != 0
			return c
		},
		Check: check,
		Classify: func(c Case) (bool, []string) {
			var cl []string
			nt := false
			if c.Measure {
				cl = append(cl, "measure-mode")
				if lastInversion {
					cl = append(cl, "measured-completion-inversion")
					nt = c.Procs >= 2
				}
			} else {
				cl = append(cl, "nosync-mode")
				nt = c.Procs >= 2 && distinctDelays(c)
			}
			if c.Procs > len(c.File.Blocks) {
				cl = append(cl, "procs>blocks")
			}
			if c.Procs > 10 {
				cl = append(cl, "procs>10")
			}
			return nt, cl
		},
		Describe: func(c Case) any {
			return map[string]any{"blocks": len(c.File.Blocks), "procs": c.Procs, "block_delay_classes": c.BlockDelay, "chunk": c.Chunk,
				"read_every": c.ReadEvery, "read_delay": c.ReadDelay, "scan_every": c.ScanEvery, "scan_delay": c.ScanDelay, "gomaxprocs": c.GoMaxProcs, "measure": c.Measure}
		},
		Floors:   map[string]float64{"measured-completion-inversion": 0.25, "procs>10": 0.2},
		Inflight: true,
	})
}
