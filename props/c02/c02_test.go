// Package c02 decides C02: parallel PBF decoding preserves file order under
// every schedule. Built with -race; the schedule is perturbed from the places a
// caller owns (reader, filter callbacks, consumer loop, GOMAXPROCS).
package c02

import (
	"context"
	"fmt"
	"io"
	"runtime"
	"strings"
	"sync/atomic"
	"testing"
	"time"

	"github.com/paulmach/osm"
	"github.com/paulmach/osm/osmpbf"
	"pgregory.net/rapid"

	"verif/internal/harness"
	"verif/internal/pbfgen"
	"verif/internal/pbfscan"
)

func TestMain(m *testing.M) { harness.Main(m, "C02") }

// delay classes: 0 none, 1 yield, 2 50us, 3 500us, 4 3ms
var delayOf = []time.Duration{0, -1, 50 * time.Microsecond, 500 * time.Microsecond, 3 * time.Millisecond}

func pause(class int) {
	switch d := delayOf[class]; {
	case d < 0:
		runtime.Gosched()
	case d > 0:
		time.Sleep(d)
	}
}

type Case struct {
	File       *pbfgen.File
	Procs      int
	BlockDelay []int // per block delay class, applied inside the filter callback on the block's first element
	Chunk      int   // bytes per Read (0 = whole remaining input)
	ReadDelay  int   // delay class applied every ReadEvery reads
	ReadEvery  int
	ScanDelay  int // delay class applied every ScanEvery objects in the consumer
	ScanEvery  int
	GoMaxProcs int
	Measure    bool // record block completion order with atomics (adds happens-before edges between decoders); false = callbacks only sleep
	// RejectBlock[b]: the filter callbacks reject every element of block b, so
	// the block decodes to zero objects (an empty result travels the pipeline).
	RejectBlock                        []bool
	SkipNodes, SkipWays, SkipRelations bool
	// Headerless: the stream starts at the first data block (a resumed scan).
	Headerless bool
	// DataEOF: the reader hands out its final bytes together with io.EOF.
	DataEOF bool
}

type chunkReader struct {
	data  []byte
	chunk int
	every int
	class int
	n     int
	// dataEOF: the last Read returns its bytes together with io.EOF
	dataEOF bool
}

func (r *chunkReader) Read(p []byte) (int, error) {
	if len(r.data) == 0 {
		return 0, io.EOF
	}
	r.n++
	if r.every > 0 && r.n%r.every == 0 {
		pause(r.class)
	}
	n := len(p)
	if r.chunk > 0 && n > r.chunk {
		n = r.chunk
	}
	if n > len(r.data) {
		n = len(r.data)
	}
	copy(p, r.data[:n])
	r.data = r.data[n:]
	if r.dataEOF && len(r.data) == 0 {
		return n, io.EOF // the final bytes together with io.EOF, as the io.Reader contract allows
	}
	return n, nil
}

var lastInversion bool

// check runs the scan under a watchdog: a scan that blocks forever (a lost
// block leaves the serializer waiting) is a violation, not a harness timeout.
func check(c Case) error {
	done := make(chan error, 1)
	go func() {
		defer func() {
			if r := recover(); r != nil {
				done <- harness.Failf("C02/panic", "panic: %v", r)
			}
		}()
		done <- run(c)
	}()
	select {
	case err := <-done:
		return err
	case <-time.After(30 * time.Second):
		buf := make([]byte, 1<<20)
		n := runtime.Stack(buf, true)
		var blocked []string
		for _, g := range strings.Split(string(buf[:n]), "\n\n") {
			if strings.Contains(g, "github.com/paulmach/osm/osmpbf.") {
				blocked = append(blocked, g)
			}
		}
		if len(blocked) == 0 {
			panic("harness: C02 case exceeded 30s without any osmpbf goroutine")
		}
		d := strings.Join(blocked, "\n\n")
		if len(d) > 4000 {
			d = d[:4000]
		}
		return harness.Failf("C02/hang", "scan did not finish within 30s (procs=%d, %d blocks); goroutines in osmpbf frames:\n%s", c.Procs, len(c.File.Blocks), d)
	}
}

func run(c Case) error {
	enc := c.File.Encode()
	want, blockOf := c.File.Expected()
	nb := len(c.File.Blocks)
	lastIdx := make([]int64, nb) // id of the last element of every block
	firstIdx := make([]int64, nb)
	for i := range firstIdx {
		firstIdx[i] = -1
	}
	idOf := func(o osm.Object) int64 {
		switch x := o.(type) {
		case *osm.Node:
			return int64(x.ID)
		case *osm.Way:
			return int64(x.ID)
		case *osm.Relation:
			return int64(x.ID)
		}
		return 0
	}
	skipped := func(o osm.Object) bool {
		switch o.(type) {
		case *osm.Node:
			return c.SkipNodes
		case *osm.Way:
			return c.SkipWays
		case *osm.Relation:
			return c.SkipRelations
		}
		return false
	}
	rejected := func(b int) bool { return b < len(c.RejectBlock) && c.RejectBlock[b] }
	var kept []osm.Object
	for i, o := range want {
		b := blockOf[i]
		if skipped(o) {
			continue
		}
		if firstIdx[b] < 0 {
			firstIdx[b] = idOf(o)
		}
		lastIdx[b] = idOf(o)
		if !rejected(b) {
			kept = append(kept, o)
		}
	}
	want = kept

	old := runtime.GOMAXPROCS(c.GoMaxProcs)
	defer runtime.GOMAXPROCS(old)

	var done int64
	finished := make([]int64, nb)
	hook := func(id int64) bool {
		b := int(id/1000000) - 1
		if b < 0 || b >= nb {
			return true
		}
		defer func() {}()
		if id == firstIdx[b] && b < len(c.BlockDelay) {
			pause(c.BlockDelay[b])
		}
		if c.Measure && id == lastIdx[b] {
			atomic.StoreInt64(&finished[b], atomic.AddInt64(&done, 1))
		}
		return !rejected(b)
	}
	data := enc.Data
	if c.Headerless {
		data = data[enc.Header.End:]
	}
	r := &chunkReader{data: data, chunk: c.Chunk, every: c.ReadEvery, class: c.ReadDelay, dataEOF: c.DataEOF}
	s := osmpbf.New(context.Background(), r, c.Procs)
	s.SkipNodes, s.SkipWays, s.SkipRelations = c.SkipNodes, c.SkipWays, c.SkipRelations
	s.FilterNode = func(n *osm.Node) bool { return hook(int64(n.ID)) }
	s.FilterWay = func(w *osm.Way) bool { return hook(int64(w.ID)) }
	s.FilterRelation = func(r *osm.Relation) bool { return hook(int64(r.ID)) }

	var got []osm.Object
	var snaps []string
	for s.Scan() {
		o := s.Object()
		got = append(got, o)
		snaps = append(snaps, pbfgen.Snap(o))
		if c.ScanEvery > 0 && len(got)%c.ScanEvery == 0 {
			pause(c.ScanDelay)
		}
	}
	err := s.Err()
	s.Close()
	lastInversion = false
	if c.Measure {
		for i := 1; i < nb; i++ {
			fi, fp := atomic.LoadInt64(&finished[i]), atomic.LoadInt64(&finished[i-1])
			if fi != 0 && fp != 0 && fi < fp {
				lastInversion = true
			}
		}
	}
	if err != nil {
		return harness.Failf("C02/scan-error", "scan of a valid file failed after %d objects (procs=%d): %v", len(got), c.Procs, err)
	}
	if d := pbfgen.DiffSeq(got, want); d != "" {
		return harness.Failf("C02/order-or-content", "procs=%d gomaxprocs=%d blocks=%d: %s", c.Procs, c.GoMaxProcs, nb, d)
	}
	for i, o := range got {
		if now := pbfgen.Snap(o); now != snaps[i] {
			return harness.Failf("C02/modified-after-return", "object %d changed after it was returned:\n was %s\n now %s", i, snaps[i], now)
		}
	}
	if d := pbfgen.AppendIndependence(got); d != "" {
		return harness.Failf("C02/results-share-memory", "%s", d)
	}
	return nil
}

func distinctDelays(c Case) bool {
	seen := map[int]bool{}
	for _, d := range c.BlockDelay {
		seen[d] = true
	}
	return len(seen) >= 2
}

func TestSchedules(t *testing.T) {
	harness.Run(t, harness.Spec[Case]{
		Name: "schedules", N: 250,
		Rule: "files of 5..60 small non-empty blocks (all element kinds, sequential ids so an id names its block) x procs 1..32 (weighted to more decoders than blocks and more than the 10-slot channel budget) x a perturbation plan drawn by rapid: per-block decode delay in {0, yield, 50us, 500us, 3ms} injected from always-true filter callbacks, reader chunk size (1 byte .. whole file) with read delays, consumer delay per Scan, GOMAXPROCS in {1,2,4,16}; a third of the plans make the filters reject runs of whole blocks (empty results in the pipeline), a quarter set skip flags, a fifth start at the first data block (resumed stream); oracle = sequence equals the model (which C01 ties to the procs=1 scan), deep snapshot at receipt == at end, zero race-detector reports (the process runs under -race with halt_on_error); non-trivial = procs>=2 and either a measured completion inversion (a later block finished decoding before an earlier one) or, in the no-atomics mode, a plan with at least two different block delays",
		Gen: func(t *rapid.T) Case {
			f := pbfgen.GenFile(t, pbfgen.Opt{MinBlocks: 5, MaxBlocks: 60, NonEmpty: true, SeqIDs: true, Small: true})
			c := Case{File: f}
			switch rapid.IntRange(0, 3).Draw(t, "procsMode") {
			case 0:
				c.Procs = rapid.IntRange(1, 4).Draw(t, "procs")
			case 1:
				c.Procs = rapid.IntRange(11, 32).Draw(t, "procs")
			default:
				c.Procs = rapid.IntRange(2, 32).Draw(t, "procs")
			}
			for range f.Blocks {
				c.BlockDelay = append(c.BlockDelay, rapid.SampledFrom([]int{0, 0, 1, 2, 3, 3, 4}).Draw(t, "bd"))
			}
			c.Chunk = rapid.SampledFrom([]int{0, 1, 3, 64, 1000}).Draw(t, "chunk")
			c.ReadEvery = rapid.SampledFrom([]int{0, 1, 7, 50}).Draw(t, "readEvery")
			c.ReadDelay = rapid.IntRange(0, 3).Draw(t, "readDelay")
			if c.Chunk == 1 && c.ReadEvery == 1 {
				c.ReadEvery = 50 // keep single-byte reads from sleeping on every byte
			}
			c.ScanEvery = rapid.SampledFrom([]int{0, 1, 5}).Draw(t, "scanEvery")
			c.ScanDelay = rapid.IntRange(0, 3).Draw(t, "scanDelay")
			c.GoMaxProcs = rapid.SampledFrom([]int{1, 2, 4, 16}).Draw(t, "gomaxprocs")
			c.Measure = rapid.IntRange(0, 2).Draw(t, "measure") != 0
			if rapid.IntRange(0, 2).Draw(t, "reject?") == 0 {
				// runs of fully rejected blocks: their empty results must still keep their slot
				run := false
				for range f.Blocks {
					if rapid.IntRange(0, 3).Draw(t, "toggle") == 0 {
						run = !run
					}
					c.RejectBlock = append(c.RejectBlock, run)
				}
			}
			if rapid.IntRange(0, 3).Draw(t, "skip?") == 0 {
				c.SkipNodes = rapid.Bool().Draw(t, "sn")
				c.SkipWays = rapid.Bool().Draw(t, "sw")
				c.SkipRelations = rapid.Bool().Draw(t, "sr")
			}
			c.Headerless = rapid.IntRange(0, 4).Draw(t, "headerless") == 0
			c.DataEOF = rapid.IntRange(0, 3).Draw(t, "dataEOF") == 0
			return c
		},
		Check: check,
		Classify: func(c Case) (bool, []string) {
			var cl []string
			nt := false
			if c.Measure {
				cl = append(cl, "measure-mode")
				if lastInversion {
					cl = append(cl, "measured-completion-inversion")
					nt = c.Procs >= 2
				}
			} else {
				cl = append(cl, "nosync-mode")
				nt = c.Procs >= 2 && distinctDelays(c)
			}
			if c.Procs > len(c.File.Blocks) {
				cl = append(cl, "procs>blocks")
			}
			if c.Procs > 10 {
				cl = append(cl, "procs>10")
			}
			for _, rj := range c.RejectBlock {
				if rj {
					cl = append(cl, "has-fully-rejected-blocks")
					break
				}
			}
			if c.SkipNodes || c.SkipWays || c.SkipRelations {
				cl = append(cl, "skip-flags")
			}
			if c.Headerless {
				cl = append(cl, "headerless-start")
			}
			return nt, cl
		},
		Describe: func(c Case) any {
			return map[string]any{"blocks": len(c.File.Blocks), "procs": c.Procs, "block_delay_classes": c.BlockDelay, "chunk": c.Chunk,
				"read_every": c.ReadEvery, "read_delay": c.ReadDelay, "scan_every": c.ScanEvery, "scan_delay": c.ScanDelay, "gomaxprocs": c.GoMaxProcs, "measure": c.Measure, "reject_block": c.RejectBlock, "skip": []bool{c.SkipNodes, c.SkipWays, c.SkipRelations}, "headerless": c.Headerless}
		},
		Floors:   map[string]float64{"measured-completion-inversion": 0.2, "procs>10": 0.2, "has-fully-rejected-blocks": 0.15, "headerless-start": 0.1},
		Inflight: true,
	})
}

// TestOversizedBlocks: blocks above the decoder's 8000-object pre-allocation,
// followed by later blocks on the same decoder, with a consumer that is slower
// than the decoders (the pipeline may run about ten blocks ahead).
func TestOversizedBlocks(t *testing.T) {
	harness.Run(t, harness.Spec[Case]{
		Name: "oversized-blocks", N: 24,
		Rule: "files of 4..14 small blocks in which one or two blocks (in the first half) additionally carry a dense group of 8001..12000 nodes - more than the 8000 objects the block decoder pre-allocates for - so that later blocks are decoded by the same decoder goroutine (procs 1..4) while the consumer, paused every 500..2000 objects, is still inside the oversized block; same oracle as the schedules sub-check (sequence equals the model, snapshots at receipt == at the end, zero race reports); non-trivial = every case (procs and delays as drawn)",
		Gen: func(t *rapid.T) Case {
			f := pbfgen.GenFile(t, pbfgen.Opt{MinBlocks: 4, MaxBlocks: 14, NonEmpty: true, Small: true})
			nbig := rapid.IntRange(1, 2).Draw(t, "nbig")
			for k := 0; k < nbig; k++ {
				bi := rapid.IntRange(0, len(f.Blocks)/2).Draw(t, "bigAt")
				n := rapid.SampledFrom([]int{8001, 8200, 9000, 12000}).Draw(t, "bigN")
				d := &pbfgen.Dense{}
				for i := 0; i < n; i++ {
					d.Nodes = append(d.Nodes, pbfgen.Node{Lat: int64(i), Lon: int64(-i)})
				}
				f.Blocks[bi].Groups = append(f.Blocks[bi].Groups, pbfgen.Group{Dense: d})
			}
			f.Renumber()
			c := Case{File: f, Procs: rapid.IntRange(1, 4).Draw(t, "procs")}
			c.ScanEvery = rapid.SampledFrom([]int{500, 1000, 2000}).Draw(t, "scanEvery")
			c.ScanDelay = rapid.IntRange(2, 4).Draw(t, "scanDelay")
			c.GoMaxProcs = rapid.SampledFrom([]int{2, 4, 16}).Draw(t, "gomaxprocs")
			c.Headerless = rapid.IntRange(0, 4).Draw(t, "headerless") == 0
			return c
		},
		Check:    check,
		Classify: func(c Case) (bool, []string) { return true, []string{fmt.Sprintf("procs=%d", c.Procs)} },
		Describe: func(c Case) any {
			var sizes []int
			for _, b := range c.File.Blocks {
				n := 0
				for _, g := range b.Groups {
					if g.Dense != nil {
						n += len(g.Dense.Nodes)
					}
					n += len(g.Ways) + len(g.Relations)
				}
				sizes = append(sizes, n)
			}
			return map[string]any{"block_sizes": sizes, "procs": c.Procs, "scan_every": c.ScanEvery, "scan_delay": c.ScanDelay, "gomaxprocs": c.GoMaxProcs, "headerless": c.Headerless}
		},
		Inflight: true,
	})
}

// ---------------------------------------------------------------- two scanners alive at once

type TwoCase struct {
	A, B           *pbfgen.File
	ProcsA, ProcsB int
	StallBlock     int  // A's reader stalls one byte short of the end of this data block (modulo) until B has been scanned completely
	OneP           bool // GOMAXPROCS=1 and no garbage collection during the case (per-P caches and pools then hand memory from one scanner to the next deterministically)
	HeaderlessB    bool // B starts at its first data block (a scan resumed while the earlier scanner is still open)
}

func runTwo(c TwoCase) (string, bool) {
	encA, encB := c.A.Encode(), c.B.Encode()
	wantA, _ := c.A.Expected()
	wantB, _ := c.B.Expected()
	stall := len(encA.Data)
	if n := len(encA.Blocks); n > 0 {
		stall = encA.Blocks[c.StallBlock%n].End - 1
	}
	dataB := encB.Data
	if c.HeaderlessB {
		dataB = dataB[encB.Header.End:]
	}
	return pbfscan.Two(encA.Data, wantA, c.ProcsA, stall, dataB, wantB, c.ProcsB, c.OneP)
}

func TestTwoScanners(t *testing.T) {
	harness.Run(t, harness.Spec[TwoCase]{
		Name: "two-scanners", N: 120,
		Rule: "two scanners alive in one process: scanner A's reader stalls one byte short of the end of a drawn data block, scanner B (another file, own decoder count, half of the time started at its first data block like a resumed scan) is then scanned to its end, A is released and finishes; half of the cases run with GOMAXPROCS=1 and the collector off, where per-P caches and pools pass memory from one scanner to the next deterministically; oracle = both sequences equal their models; non-trivial = every case",
		Gen: func(t *rapid.T) TwoCase {
			return TwoCase{
				A:           pbfgen.GenFile(t, pbfgen.Opt{MinBlocks: 1, MaxBlocks: 6, NonEmpty: true, Small: true}),
				B:           pbfgen.GenFile(t, pbfgen.Opt{MinBlocks: 1, MaxBlocks: 6, NonEmpty: true, Small: true}),
				ProcsA:      rapid.SampledFrom([]int{1, 1, 2, 4, 11}).Draw(t, "procsA"),
				ProcsB:      rapid.SampledFrom([]int{1, 1, 2, 4, 11}).Draw(t, "procsB"),
				StallBlock:  rapid.IntRange(0, 5).Draw(t, "stallBlock"),
				OneP:        rapid.Bool().Draw(t, "oneP"),
				HeaderlessB: rapid.Bool().Draw(t, "headerlessB"),
			}
		},
		Check: func(c TwoCase) error {
			d, hang := runTwo(c)
			if hang {
				return harness.Failf("C02/hang", "%s", d)
			}
			if d != "" {
				return harness.Failf("C02/two-scanners", "%s", d)
			}
			return nil
		},
		Classify: func(c TwoCase) (bool, []string) {
			var cl []string
			if c.OneP {
				cl = append(cl, "single-P-no-gc")
			}
			return true, cl
		},
		Describe: func(c TwoCase) any {
			return map[string]any{"blocks_a": len(c.A.Blocks), "blocks_b": len(c.B.Blocks), "procs_a": c.ProcsA, "procs_b": c.ProcsB, "stall_block": c.StallBlock, "one_p": c.OneP, "headerless_b": c.HeaderlessB}
		},
		Inflight: true,
	})
}
