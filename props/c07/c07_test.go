// Package c07 decides C07: Close and context cancellation stop PBF / XML scans
// promptly, cleanly and race-free. Built with -race. A case is a call history
// (a plan drawn by rapid) that is executed deterministically against a scanner
// reading from a counting reader.
package c07

import (
	"bytes"
	"context"
	"errors"
	"fmt"
	"io"
	"runtime"
	"strings"
	"sync/atomic"
	"testing"
	"time"

	"github.com/paulmach/osm"
	"github.com/paulmach/osm/osmpbf"
	"github.com/paulmach/osm/osmxml"
	"pgregory.net/rapid"

	"verif/internal/harness"
	"verif/internal/pbfgen"
)

func TestMain(m *testing.M) { harness.Main(m, "C07") }

const (
	stopClose = iota
	stopCancelSync
	stopCancelAsync
	stopNone // scan to the end, then the "after" operations
)

const (
	opScan = iota
	opErr
	opClose
	opOffsets
	opHeader
	nOps
)

var delayOf = []time.Duration{0, -1, 50 * time.Microsecond, 500 * time.Microsecond, 3 * time.Millisecond}

func pause(class int) {
	switch d := delayOf[class%len(delayOf)]; {
	case d < 0:
		runtime.Gosched()
	case d > 0:
		time.Sleep(d)
	}
}

type Case struct {
	Templates   []*pbfgen.Block // distinct blocks, repeated cyclically
	NBlocks     int
	Procs       int
	HeaderFirst bool
	K           int // successful Scans before the stop
	Stop        int
	AsyncDelay  int
	After       []int // operations after the stop
	Chunk       int
	Endless     bool // the reader repeats the data blocks forever
	TruncateAt  int  // >0: cut the stream inside data block TruncateAt-1 (0 = intact)
	TruncBytes  int  // how many bytes of that block remain (clamped)
	// ReadErr: what the reader returns at the end of truncated input:
	// 0 io.EOF, 1 a transport error, 2 a transport error that wraps io.EOF.
	ReadErr int
	// Headerless: the stream starts at the first data block (a scan resumed
	// at FullyScannedBytes).
	Headerless bool
	// BadFirst: the first fileblock is readable but rejected: 1 the header
	// requires a feature the reader does not know, 2 the block has an unknown
	// type. The scan ends with an error at once; Close and the clean-up are
	// what this history is about.
	BadFirst int
}

var (
	errTransport    = errors.New("transport: connection reset")
	errTransportEOF = fmt.Errorf("transport: stream reset by peer: %w", io.EOF)
)

func readErr(kind int) error {
	switch kind {
	case 1:
		return errTransport
	case 2:
		return errTransportEOF
	}
	return nil
}

type countingReader struct {
	data     []byte
	pos      int
	loopFrom int // >=0: endless, restart here
	chunk    int
	count    int64
	// hookAt > 0: hook is called once, from inside Read, when the read position
	// has reached hookAt (used to cancel while a Scan is in progress)
	hookAt int
	hook   func()
	endErr error // returned instead of io.EOF at the end of the data
}

func (r *countingReader) Read(p []byte) (int, error) {
	if r.hook != nil && r.hookAt > 0 && r.pos >= r.hookAt {
		h := r.hook
		r.hook = nil
		h()
	}
	if r.pos >= len(r.data) {
		if r.loopFrom < 0 {
			if r.endErr != nil {
				return 0, r.endErr
			}
			return 0, io.EOF
		}
		r.pos = r.loopFrom
	}
	n := len(p)
	if r.chunk > 0 && n > r.chunk {
		n = r.chunk
	}
	if n > len(r.data)-r.pos {
		n = len(r.data) - r.pos
	}
	copy(p, r.data[r.pos:r.pos+n])
	r.pos += n
	atomic.AddInt64(&r.count, int64(n))
	return n, nil
}

func (c *Case) file() *pbfgen.File {
	f := &pbfgen.File{Header: &pbfgen.Header{Required: []string{"OsmSchema-V0.6", "DenseNodes"}}}
	for i := 0; i < c.NBlocks; i++ {
		f.Blocks = append(f.Blocks, c.Templates[i%len(c.Templates)])
	}
	return f
}

var stackBuf = make([]byte, 2<<20)

func osmpbfGoroutines() string {
	buf := stackBuf
	n := runtime.Stack(buf, true)
	var out []string
	for _, g := range strings.Split(string(buf[:n]), "\n\n") {
		if strings.Contains(g, "github.com/paulmach/osm/osmpbf.") {
			out = append(out, g)
		}
	}
	return strings.Join(out, "\n\n")
}

func waitNoGoroutines(d time.Duration) string {
	deadline := time.Now().Add(d)
	for {
		g := osmpbfGoroutines()
		if g == "" || time.Now().After(deadline) {
			return g
		}
		time.Sleep(2 * time.Millisecond)
	}
}

func isOneOf(err error, allowed ...error) bool {
	for _, a := range allowed {
		if a == nil && err == nil {
			return true
		}
		if a != nil && errors.Is(err, a) {
			return true
		}
	}
	return false
}

type outcome struct {
	nontrivial bool
	classes    []string
}

var last outcome

func check(c Case) (err error) {
	last = outcome{}
	done := make(chan error, 1)
	go func() {
		defer func() {
			if r := recover(); r != nil {
				done <- harness.Failf("C07/panic", "panic: %v", r)
			}
		}()
		done <- run(c)
	}()
	select {
	case err = <-done:
		return err
	case <-time.After(40 * time.Second):
		buf := make([]byte, 4<<20)
		n := runtime.Stack(buf, true)
		dump := string(buf[:n])
		if strings.Contains(dump, "github.com/paulmach/osm/osmpbf.") {
			return harness.Failf("C07/hang", "history did not finish within 40s (a call such as Close never returned); goroutines in osmpbf frames:\n%s", trunc(osmpbfGoroutines(), 5000))
		}
		panic("harness: C07 history exceeded 40s without any osmpbf goroutine")
	}
}

func trunc(s string, n int) string {
	if len(s) > n {
		return s[:n] + "…"
	}
	return s
}

// runBadFirst: the first block is rejected, then the drawn calls follow.
func runBadFirst(c Case) error {
	f := c.file()
	if c.BadFirst == 1 {
		f.Header.Required = append(f.Header.Required, "NoSuchFeature")
	}
	data := f.Encode().Data
	if c.BadFirst == 2 {
		h := pbfgen.FrameBlob("OSMFoo", pbfgen.EncodeBlob(f.Header.Encode(), pbfgen.BlobOpt{}), nil)
		data = append(h, data[f.Encode().Header.End:]...)
	}
	ctx, cancel := context.WithCancel(context.Background())
	defer cancel()
	r := &countingReader{data: data, loopFrom: -1, chunk: c.Chunk}
	s := osmpbf.New(ctx, r, c.Procs)
	if c.HeaderFirst {
		if _, err := s.Header(); err == nil {
			return harness.Failf("C07/bad-first-block", "Header() accepted a first block that must be rejected (variant %d)", c.BadFirst)
		}
	}
	if s.Scan() {
		return harness.Failf("C07/bad-first-block", "Scan returned true although the first block must be rejected (variant %d)", c.BadFirst)
	}
	first := s.Err()
	if first == nil {
		return harness.Failf("C07/bad-first-block", "the first block must be rejected (variant %d) but Err() is nil", c.BadFirst)
	}
	switch c.Stop {
	case stopCancelSync, stopCancelAsync:
		cancel()
	}
	if err := s.Close(); err != nil {
		return harness.Failf("C07/close-error", "Close returned %v", err)
	}
	for i, op := range c.After {
		switch op {
		case opScan:
			if s.Scan() {
				return harness.Failf("C07/scan-after-stop", "Scan #%d after the rejected first block returned true", i)
			}
		case opErr:
			if got := s.Err(); got == nil || got.Error() != first.Error() {
				return harness.Failf("C07/err-precedence", "Err() = %v after Close, the error recorded earlier was %v", got, first)
			}
		case opClose:
			s.Close()
		}
	}
	if g := waitNoGoroutines(6 * time.Second); g != "" {
		return harness.Failf("C07/goroutine-leak", "goroutines still in osmpbf frames 6s after a scan whose first block was rejected:\n%s", trunc(g, 4000))
	}
	last.classes = append(last.classes, "first-block-rejected")
	return nil
}

func run(c Case) error {
	if c.BadFirst != 0 {
		return runBadFirst(c)
	}
	f := c.file()
	enc := f.Encode()
	data := enc.Data
	want, blockOf := f.Expected()
	total := len(want)
	truncated := false
	if c.TruncateAt > 0 && c.TruncateAt <= len(enc.Blocks) && !c.Endless {
		fr := enc.Blocks[c.TruncateAt-1]
		keep := 1 + c.TruncBytes%(fr.End-fr.Start-1)
		data = data[:fr.Start+keep]
		truncated = true
		// objects of complete blocks only
		n := 0
		for i := range want {
			if blockOf[i] < c.TruncateAt-1 {
				n++
			}
		}
		want = want[:n]
		total = n
	}
	maxBlock := 0
	for _, fr := range enc.Blocks {
		if l := fr.End - fr.Start; l > maxBlock {
			maxBlock = l
		}
	}
	base := 0 // offset of the stream's first byte in the encoded file
	if c.Headerless {
		base = enc.Header.End
		data = data[base:]
	}
	r := &countingReader{data: data, loopFrom: -1, chunk: c.Chunk}
	if c.Endless {
		r.loopFrom = enc.Header.End - base
	}
	if truncated {
		r.endErr = readErr(c.ReadErr)
	}
	wantAt := func(i int) osm.Object {
		if c.Endless {
			return want[i%len(want)]
		}
		return want[i]
	}

	ctx, cancel := context.WithCancel(context.Background())
	defer cancel()
	s := osmpbf.New(ctx, r, c.Procs)
	defer s.Close()

	if c.HeaderFirst && !c.Headerless {
		if _, err := s.Header(); err != nil {
			return harness.Failf("C07/header", "Header() failed: %v", err)
		}
	}

	stop := c.Stop
	k := c.K
	if c.Endless && stop == stopNone {
		stop = stopClose
	}
	if !c.Endless && k > total {
		k = total + 1 // one Scan beyond the end: observes EOF / the truncation error
	}

	delivered := 0
	var scanErrSeen bool
	signal := make(chan struct{})
	asyncDone := make(chan struct{})
	if stop == stopCancelAsync {
		go func() {
			defer close(asyncDone)
			<-signal
			pause(c.AsyncDelay)
			cancel()
		}()
	}
	signalled := false
	fire := func() {
		if !signalled {
			signalled = true
			close(signal)
		}
	}
	completed := false // Scan returned false before the stop was issued
	limit := k
	if stop == stopCancelAsync || stop == stopNone {
		limit = 1 << 30
	}
	for delivered < limit {
		if stop == stopCancelAsync && delivered >= k {
			fire()
		}
		if !s.Scan() {
			if stop != stopCancelAsync || !signalled {
				completed = true
			}
			scanErrSeen = true
			break
		}
		if c.Endless || delivered < total {
			if d := pbfgen.Diff(s.Object(), wantAt(delivered)); d != "" {
				return harness.Failf("C07/object-before-stop", "object %d before the stop: %s", delivered, d)
			}
		} else {
			return harness.Failf("C07/extra-object", "Scan returned true for object %d but the input holds %d", delivered, total)
		}
		delivered++
		if c.Endless && delivered > 200000 {
			return harness.Failf("C07/cancel-ignored", "scanner delivered %d objects after cancellation was requested", delivered)
		}
	}
	if stop == stopCancelAsync {
		fire()
		<-asyncDone
	}
	if !c.Endless && delivered < total && delivered < k && stop != stopCancelAsync {
		return harness.Failf("C07/early-end", "Scan returned false after %d of %d objects without a stop (err=%v)", delivered, total, s.Err())
	}
	if stop == stopCancelAsync && !c.Endless && delivered < total && !signalled {
		return harness.Failf("C07/early-end", "Scan returned false after %d of %d objects before cancellation", delivered, total)
	}

	// the error recorded before the stop, if any
	var earlier error
	if completed {
		earlier = s.Err()
		if truncated {
			if earlier == nil {
				return harness.Failf("C07/truncation-silent", "truncated input scanned to its end without an error")
			}
			if want := readErr(c.ReadErr); want != nil && earlier.Error() != want.Error() && !errors.Is(earlier, want) {
				return harness.Failf("C07/read-error-lost", "the reader failed with %q, Err() reports %v", want, earlier)
			}
		} else if earlier != nil {
			return harness.Failf("C07/error-on-complete-scan", "complete scan of valid input reports %v", earlier)
		}
	}

	// ---- the stop
	closedCalled, cancelled := false, false
	switch stop {
	case stopClose:
		if err := s.Close(); err != nil {
			return harness.Failf("C07/close-error", "Close returned %v", err)
		}
		closedCalled = true
	case stopCancelSync:
		cancel()
		cancelled = true
	case stopCancelAsync:
		cancelled = true
	}
	readAtStop := atomic.LoadInt64(&r.count)
	if closedCalled {
		// Close waits for the pipeline: nothing may read the input once it returned
		// (measured before any further scanner method is called)
		time.Sleep(3 * time.Millisecond)
		if later := atomic.LoadInt64(&r.count); later != readAtStop {
			return harness.Failf("C07/reads-after-close", "reader was read after Close returned: %d bytes at return, %d later", readAtStop, later)
		}
	}

	expectErr := func(where string) error {
		got := s.Err()
		var allowed []error
		switch {
		case completed && earlier != nil:
			if got == nil || got.Error() != earlier.Error() {
				return harness.Failf("C07/err-precedence", "%s: Err() = %v, but the error recorded earlier was %v", where, got, earlier)
			}
			return nil
		case completed:
			// nil only after a complete scan; the scanner-closed error is also
			// a faithful answer once Close was called
			allowed = []error{nil}
			if closedCalled {
				allowed = append(allowed, osm.ErrScannerClosed)
			}
			if cancelled {
				allowed = append(allowed, context.Canceled)
			}
		case closedCalled && cancelled:
			allowed = []error{osm.ErrScannerClosed, context.Canceled}
		case closedCalled:
			allowed = []error{osm.ErrScannerClosed}
		case cancelled:
			allowed = []error{context.Canceled}
		default:
			return nil
		}
		if truncated && c.Headerless && c.TruncateAt == 1 && k == 0 {
			// the scanner was stopped before it was started: the first Scan after
			// the stop starts it, which reads the first blob (as it reads the header
			// of an ordinary file) and records that blob's error
			if got != nil {
				return nil
			}
		}
		if stop == stopCancelAsync && !c.Endless && delivered >= total && !truncated {
			// every object was delivered: the scan may have observed the end of the
			// input (a complete scan) before the asynchronous cancellation landed
			allowed = append(allowed, nil)
		}
		if truncated && stop == stopCancelAsync && delivered >= total {
			// either the truncation error or the cancellation was observed first
			if got == nil {
				return harness.Failf("C07/err-nil", "%s: Err() = nil after truncated input and cancellation", where)
			}
			return nil
		}
		if !isOneOf(got, allowed...) {
			return harness.Failf("C07/err-value", "%s: Err() = %v, allowed %v (stop=%d delivered=%d/%d completed=%v)", where, got, allowed, stop, delivered, total, completed)
		}
		return nil
	}

	if stop != stopNone {
		if s.Scan() {
			if !(stop == stopCancelAsync) {
				return harness.Failf("C07/scan-after-stop", "Scan returned true after the stop (stop=%d, delivered %d)", stop, delivered)
			}
			return harness.Failf("C07/scan-after-stop", "Scan returned true after an asynchronous cancel had already made Scan return false or completed")
		}
		if err := expectErr("after stop"); err != nil {
			return err
		}
	}
	_ = scanErrSeen

	for i, op := range c.After {
		switch op {
		case opScan:
			if stop != stopNone || completed {
				if s.Scan() {
					return harness.Failf("C07/scan-after-stop", "Scan #%d after the stop returned true", i)
				}
			}
		case opErr:
			if err := expectErr(fmt.Sprintf("after-op %d", i)); err != nil {
				return err
			}
		case opClose:
			if err := s.Close(); err != nil {
				return harness.Failf("C07/close-error", "Close returned %v", err)
			}
			if !closedCalled {
				closedCalled = true
				readAtStop = atomic.LoadInt64(&r.count)
			}
		case opOffsets:
			_ = s.FullyScannedBytes() + s.PreviousFullyScannedBytes()
		case opHeader:
			s.Header()
		}
	}

	// ---- cleanliness: every goroutine the scanner started terminates
	stopped := closedCalled || cancelled || completed
	if stopped {
		if g := waitNoGoroutines(6 * time.Second); g != "" {
			return harness.Failf("C07/goroutine-leak", "goroutines still in osmpbf frames 6s after the stop (stop=%d closed=%v cancelled=%v completed=%v):\n%s", stop, closedCalled, cancelled, completed, trunc(g, 4000))
		}
	}

	// ---- promptness: the stop does not consume the rest of the input
	if closedCalled || cancelled {
		after := atomic.LoadInt64(&r.count)
		lastOff := int64(enc.Header.End - base)
		if delivered > 0 && !c.Endless {
			lastOff = int64(enc.Blocks[blockOf[min(delivered, len(blockOf))-1]].End - base)
		}
		allowance := int64(3*c.Procs+30) * int64(maxBlock+8)
		if c.Endless {
			// measured in objects: bytes read vs bytes needed for what was delivered
			per := int64(len(enc.Data)-enc.Header.End) / int64(len(want)) // >= bytes per object on average
			lastOff = int64(enc.Header.End-base) + (int64(delivered)+1)*(per+1)
		}
		bound := lastOff + allowance
		if !c.Endless && bound >= int64(len(data)) {
			last.classes = append(last.classes, "promptness-bound-trivial")
		} else {
			last.classes = append(last.classes, "promptness-bound-effective")
			if after > bound {
				return harness.Failf("C07/close-consumes-input", "stop after %d objects (block ending at byte %d, input %d bytes, endless=%v): %d bytes were pulled from the reader, bound %d (= last delivered block + %d blocks read-ahead)", delivered, lastOff, len(data), c.Endless, after, bound, 3*c.Procs+30)
			}
		}
	}

	// classification
	if stop != stopNone && delivered > 0 && (c.Endless || delivered < total) {
		last.nontrivial = true
		last.classes = append(last.classes, "stop-mid-scan")
	}
	switch stop {
	case stopClose:
		last.classes = append(last.classes, "close")
	case stopCancelSync:
		last.classes = append(last.classes, "cancel-sync")
	case stopCancelAsync:
		last.classes = append(last.classes, "cancel-async")
	case stopNone:
		last.classes = append(last.classes, "run-to-end")
	}
	if truncated {
		last.classes = append(last.classes, "truncated-input")
		if r.endErr != nil {
			last.classes = append(last.classes, "reader-fails-with-error")
		}
	}
	if c.Headerless {
		last.classes = append(last.classes, "headerless-start")
		if k == 0 && stop != stopNone {
			last.classes = append(last.classes, "headerless-stopped-before-first-scan")
		}
	}
	if c.Endless {
		last.classes = append(last.classes, "endless-input")
	}
	return nil
}

func TestPBFStop(t *testing.T) {
	harness.Run(t, harness.Spec[Case]{
		Name: "pbf-stop", N: 200,
		Rule: "call histories drawn by rapid and executed against osmpbf.Scanner on a 60..500-block file behind a counting, chunking reader (20% endless input, 15% truncated input whose reader ends with io.EOF, a transport error, or a transport error wrapping io.EOF; a quarter of the streams start at the first data block as a resumed scan does, a third of those stopped before the first Scan): optional Header, k successful Scans (k from 0 to beyond the end), then Close / cancel from the scanning goroutine / cancel from a second goroutine after a drawn delay / nothing, then a drawn sequence of Scan, Err, Close, FullyScannedBytes, Header calls; one history in ten starts on a first fileblock that is readable but rejected (unsupported required feature, unknown block type) and then closes; procs in {1,2,4,11,32}; oracle = model of the statement (objects before the stop follow the file; every Scan after the stop is false; Err = earlier error > scanner-closed / context error (either when both apply) > nil only after a complete scan), bytes pulled from the reader bounded by the last delivered block + (3*procs+30) blocks of read-ahead and no read after Close returned, no goroutine in osmpbf frames 3 s after the stop, no call blocked for 20 s, zero race reports (-race, halt_on_error); non-trivial = the stop lands strictly between the first object and the end of input",
		Gen: func(t *rapid.T) Case {
			c := Case{}
			nt := rapid.IntRange(1, 5).Draw(t, "ntemplates")
			for i := 0; i < nt; i++ {
				c.Templates = append(c.Templates, pbfgen.GenBlock(t, pbfgen.Opt{NonEmpty: true, Small: true}))
			}
			c.NBlocks = rapid.IntRange(60, 500).Draw(t, "nblocks")
			c.Procs = rapid.SampledFrom([]int{1, 2, 4, 11, 32}).Draw(t, "procs")
			c.HeaderFirst = rapid.Bool().Draw(t, "headerFirst")
			c.Stop = rapid.SampledFrom([]int{stopClose, stopClose, stopCancelSync, stopCancelAsync, stopCancelAsync, stopNone}).Draw(t, "stop")
			switch rapid.IntRange(0, 9).Draw(t, "kmode") {
			case 0:
				c.K = 0
			case 1:
				c.K = 1 << 20 // beyond the end
			default:
				c.K = rapid.IntRange(1, 3*c.NBlocks).Draw(t, "k")
			}
			c.AsyncDelay = rapid.IntRange(0, 4).Draw(t, "asyncDelay")
			c.After = rapid.SliceOfN(rapid.IntRange(0, nOps-1), 0, 6).Draw(t, "after")
			c.Chunk = rapid.SampledFrom([]int{0, 0, 7, 100, 4096}).Draw(t, "chunk")
			switch rapid.IntRange(0, 19).Draw(t, "variant") {
			case 0, 1, 2, 3:
				c.Endless = true
				if c.K > 5000 {
					c.K = rapid.IntRange(0, 5000).Draw(t, "kEndless")
				}
			case 4, 5, 6:
				c.TruncateAt = rapid.IntRange(1, c.NBlocks).Draw(t, "truncAt")
				c.TruncBytes = rapid.IntRange(0, 1000).Draw(t, "truncBytes")
				c.ReadErr = rapid.IntRange(0, 2).Draw(t, "readErr")
			}
			if rapid.IntRange(0, 9).Draw(t, "badFirst") == 0 {
				c.BadFirst = rapid.IntRange(1, 2).Draw(t, "badFirstKind")
				c.Endless, c.TruncateAt = false, 0
				return c
			}
			if rapid.IntRange(0, 3).Draw(t, "headerless") == 0 {
				c.Headerless = true
				if rapid.IntRange(0, 2).Draw(t, "beforeFirstScan") == 0 {
					c.K = 0
				}
			}
			return c
		},
		Check:    check,
		Classify: func(c Case) (bool, []string) { return last.nontrivial, last.classes },
		Describe: func(c Case) any {
			return map[string]any{"blocks": c.NBlocks, "templates": len(c.Templates), "procs": c.Procs, "header_first": c.HeaderFirst, "k": c.K,
				"stop": []string{"close", "cancel-sync", "cancel-async", "none"}[c.Stop], "async_delay": c.AsyncDelay, "after_ops": c.After, "chunk": c.Chunk, "endless": c.Endless, "truncate_at": c.TruncateAt, "read_err": c.ReadErr, "headerless": c.Headerless}
		},
		Floors:   map[string]float64{"stop-mid-scan": 0.3, "cancel-async": 0.1, "promptness-bound-effective": 0.27},
		Inflight: true,
	})
}

// ---------------------------------------------------------------- XML scanner

type XCase struct {
	N     int // elements in the document
	K     int
	Stop  int
	After []int
	Chunk int
	CutAt int // >0: truncate the document after this many bytes (clamped)
	// Filler > 0: after element FillerAfter the document holds Filler bytes of
	// comments and unknown elements (no OSM objects); with CancelInFiller the
	// context is cancelled from inside Read, by a second goroutine, once the
	// reader is 1000 bytes into that stretch, i.e. while a Scan is in progress.
	Filler         int
	FillerAfter    int
	CancelInFiller bool
	ReadErr        int // with CutAt: what the reader returns at the cut (see Case.ReadErr)
	FillerKind     int // index into fillerText
}

func xmlDoc(n int) ([]byte, []int) { d, e, _ := xmlDocFiller(n, 0, 0, 0); return d, e }

// what a stretch without OSM objects consists of: comments and unknown
// elements; comments, processing instructions and whitespace only (no element
// at all); unknown empty elements only
var fillerText = []string{
	" <!-- nothing to see here, move along -->\n <meta osm_base=\"x\"><extra a=\"1\"/>text</meta>\n",
	" <!-- nothing to see here, move along -->\n <?render hint=\"none\"?>\n      \n",
	" <extra a=\"1\"/>\n",
}

func xmlDocFiller(n, filler, fillerAfter, fillerKind int) ([]byte, []int, int) {
	var b bytes.Buffer
	var ends []int
	fillerStart := -1
	b.WriteString("<?xml version=\"1.0\" encoding=\"UTF-8\"?>\n<osm version=\"0.6\">\n")
	for i := 1; i <= n; i++ {
		if filler > 0 && i == fillerAfter+1 {
			fillerStart = b.Len()
			for b.Len()-fillerStart < filler {
				b.WriteString(fillerText[fillerKind%len(fillerText)])
			}
		}
		switch i % 3 {
		case 0:
			fmt.Fprintf(&b, " <node id=\"%d\" lat=\"1.5\" lon=\"2.5\" version=\"1\" visible=\"true\"><tag k=\"k\" v=\"v%d\"/></node>\n", i, i)
		case 1:
			fmt.Fprintf(&b, " <way id=\"%d\" version=\"2\" visible=\"true\"><nd ref=\"1\"/><nd ref=\"2\"/></way>\n", i)
		default:
			fmt.Fprintf(&b, " <relation id=\"%d\" version=\"3\" visible=\"true\"><member type=\"way\" ref=\"1\" role=\"outer\"/></relation>\n", i)
		}
		ends = append(ends, b.Len())
	}
	if filler > 0 && fillerAfter >= n {
		fillerStart = b.Len()
		for b.Len()-fillerStart < filler {
			b.WriteString(fillerText[fillerKind%len(fillerText)])
		}
	}
	b.WriteString("</osm>\n")
	return b.Bytes(), ends, fillerStart
}

func idOf(o osm.Object) int64 {
	switch x := o.(type) {
	case *osm.Node:
		return int64(x.ID)
	case *osm.Way:
		return int64(x.ID)
	case *osm.Relation:
		return int64(x.ID)
	}
	return -1
}

var lastX outcome

// checkCancelInFiller: cancellation lands while Scan is skipping a long
// stretch without objects; the scan must stop there, not at the next object.
func checkCancelInFiller(c XCase) error {
	fa := c.FillerAfter % (c.N + 1)
	doc, _, fillerStart := xmlDocFiller(c.N, c.Filler, fa, c.FillerKind)
	ctx, cancel := context.WithCancel(context.Background())
	defer cancel()
	cancelled := make(chan struct{})
	r := &countingReader{data: doc, loopFrom: -1, chunk: c.Chunk, hookAt: fillerStart + 1000}
	r.hook = func() {
		go func() { cancel(); close(cancelled) }()
		<-cancelled // the cancellation has happened before this Read returns
	}
	s := osmxml.New(ctx, r)
	defer s.Close()
	delivered := 0
	for s.Scan() {
		delivered++
		if id := idOf(s.Object()); id != int64(delivered) {
			return harness.Failf("C07/xml-object-before-stop", "object %d has id %d", delivered, id)
		}
		if delivered > c.N {
			return harness.Failf("C07/xml-extra-object", "more objects than the document holds")
		}
	}
	select {
	case <-cancelled:
	default:
		return harness.Failf("C07/harness", "the filler was never reached (delivered %d, err %v)", delivered, s.Err())
	}
	if delivered != fa {
		return harness.Failf("C07/xml-scan-continues-after-cancel", "context cancelled while Scan was %d bytes into a stretch without objects after element %d: Scan went on and delivered %d objects", 1000, fa, delivered)
	}
	if err := s.Err(); !errors.Is(err, context.Canceled) {
		return harness.Failf("C07/xml-err-value", "after cancellation during Scan: Err() = %v, want context canceled", err)
	}
	read := atomic.LoadInt64(&r.count)
	bound := int64(fillerStart + 1000 + 3*4096 + c.Chunk)
	if read > bound && bound < int64(len(doc)) {
		return harness.Failf("C07/xml-stop-consumes-input", "cancelled at byte %d of %d: %d bytes were read (bound %d)", fillerStart+1000, len(doc), read, bound)
	}
	if s.Scan() {
		return harness.Failf("C07/xml-scan-after-stop", "Scan returned true after cancellation")
	}
	lastX.nontrivial = true
	lastX.classes = append(lastX.classes, "cancel-during-scan")
	return nil
}

func checkXML(c XCase) error {
	lastX = outcome{}
	if c.CancelInFiller && c.Filler >= 20000 { // the stretch must outlast the decoder's read-ahead (4 KiB + chunk) past the cancel point
		return checkCancelInFiller(c)
	}
	doc, ends, _ := xmlDocFiller(c.N, c.Filler, c.FillerAfter%(c.N+1), c.FillerKind)
	total := c.N
	truncated := false
	if c.CutAt > 0 {
		cut := 60 + c.CutAt%(len(doc)-70)
		doc = doc[:cut]
		truncated = true
		total = 0
		for _, e := range ends {
			if e <= cut {
				total++
			}
		}
	}
	r := &countingReader{data: doc, loopFrom: -1, chunk: c.Chunk}
	if truncated {
		r.endErr = readErr(c.ReadErr)
	}
	ctx, cancel := context.WithCancel(context.Background())
	defer cancel()
	s := osmxml.New(ctx, r)
	k := c.K
	if k > total {
		k = total + 1
	}
	delivered := 0
	completed := false
	for delivered < k || c.Stop == stopNone {
		if !s.Scan() {
			completed = true
			break
		}
		if delivered >= total && !truncated {
			return harness.Failf("C07/xml-extra-object", "Scan returned true for object %d of %d", delivered, total)
		}
		if id := idOf(s.Object()); id != int64(delivered+1) {
			return harness.Failf("C07/xml-object-before-stop", "object %d has id %d", delivered, id)
		}
		delivered++
	}
	var earlier error
	if completed {
		earlier = s.Err()
		if truncated && earlier == nil {
			return harness.Failf("C07/xml-truncation-silent", "truncated document scanned without an error")
		}
		if !truncated && earlier != nil {
			return harness.Failf("C07/xml-error-on-complete-scan", "complete scan reports %v", earlier)
		}
		if delivered < total {
			return harness.Failf("C07/xml-early-end", "Scan returned false after %d of %d objects (err=%v)", delivered, total, earlier)
		}
	}
	closedCalled, cancelled := false, false
	stop := c.Stop
	if stop == stopCancelAsync {
		stop = stopCancelSync // the XML scanner has no pipeline; a second goroutine adds nothing
	}
	switch stop {
	case stopClose:
		s.Close()
		closedCalled = true
	case stopCancelSync:
		cancel()
		cancelled = true
	}
	readAtStop := atomic.LoadInt64(&r.count)
	expectErr := func(where string) error {
		got := s.Err()
		var allowed []error
		switch {
		case completed && earlier != nil:
			if got == nil || got.Error() != earlier.Error() {
				return harness.Failf("C07/xml-err-precedence", "%s: Err() = %v, earlier error %v", where, got, earlier)
			}
			return nil
		case completed:
			allowed = []error{nil}
			if closedCalled {
				allowed = append(allowed, osm.ErrScannerClosed)
			}
			if cancelled {
				allowed = append(allowed, context.Canceled)
			}
		case closedCalled && cancelled:
			allowed = []error{osm.ErrScannerClosed, context.Canceled}
		case closedCalled:
			allowed = []error{osm.ErrScannerClosed}
		case cancelled:
			allowed = []error{context.Canceled}
		default:
			return nil
		}
		if !isOneOf(got, allowed...) {
			return harness.Failf("C07/xml-err-value", "%s: Err() = %v, allowed %v", where, got, allowed)
		}
		return nil
	}
	if stop != stopNone {
		if s.Scan() {
			return harness.Failf("C07/xml-scan-after-stop", "Scan returned true after the stop")
		}
		if err := expectErr("after stop"); err != nil {
			return err
		}
	}
	for i, op := range c.After {
		switch op {
		case opScan:
			if (stop != stopNone || completed) && s.Scan() {
				return harness.Failf("C07/xml-scan-after-stop", "Scan #%d after the stop returned true", i)
			}
		case opErr:
			if err := expectErr(fmt.Sprintf("after-op %d", i)); err != nil {
				return err
			}
		case opClose:
			s.Close()
			closedCalled = true
		}
	}
	if closedCalled || cancelled {
		if now := atomic.LoadInt64(&r.count); now != readAtStop && stop != stopNone {
			return harness.Failf("C07/xml-reads-after-stop", "the reader was read after the stop: %d then %d bytes", readAtStop, now)
		}
		last := 0
		if delivered > 0 {
			last = ends[delivered-1]
		}
		if bound := int64(last + 3*4096 + 200); stop != stopNone && !completed && readAtStop > bound && bound < int64(len(doc)) {
			return harness.Failf("C07/xml-stop-consumes-input", "stop after %d objects (byte %d): %d bytes read, bound %d", delivered, last, readAtStop, bound)
		}
	}
	if stop != stopNone && delivered > 0 && delivered < total {
		lastX.nontrivial = true
		lastX.classes = append(lastX.classes, "stop-mid-scan")
	}
	if truncated {
		lastX.classes = append(lastX.classes, "truncated-input")
		if r.endErr != nil {
			lastX.classes = append(lastX.classes, "reader-fails-with-error")
		}
	}
	return nil
}

func TestXMLStop(t *testing.T) {
	harness.Run(t, harness.Spec[XCase]{
		Name: "xml-stop", N: 1000,
		Rule: "the same call-history machine against osmxml.Scanner on documents of 1..400 elements (20% truncated - the reader ending with io.EOF, a transport error, or a transport error wrapping io.EOF -, a third with a 2-200 KB stretch without objects: comments and unknown elements, or comments, processing instructions and whitespace only, or unknown empty elements only): k Scans, Close / cancel / nothing, or cancellation from a second goroutine issued from inside Read while Scan is skipping that stretch (Scan must stop there, Err = context canceled, bounded further reads), then Scan/Err/Close calls; oracle = same Err precedence model, every Scan after the stop false, no read from the reader after the stop, bytes read bounded by the last delivered element + decoder buffering; non-trivial = stop strictly inside the document",
		Gen: func(t *rapid.T) XCase {
			c := XCase{N: rapid.IntRange(1, 400).Draw(t, "n")}
			c.K = rapid.IntRange(0, c.N+2).Draw(t, "k")
			c.Stop = rapid.SampledFrom([]int{stopClose, stopClose, stopCancelSync, stopNone}).Draw(t, "stop")
			c.After = rapid.SliceOfN(rapid.IntRange(0, 2), 0, 6).Draw(t, "after")
			c.Chunk = rapid.SampledFrom([]int{0, 1, 13, 512}).Draw(t, "chunk")
			if rapid.IntRange(0, 4).Draw(t, "cut?") == 0 {
				c.CutAt = rapid.IntRange(1, 1<<20).Draw(t, "cut")
				c.ReadErr = rapid.IntRange(0, 2).Draw(t, "readErr")
			}
			if rapid.IntRange(0, 2).Draw(t, "filler?") == 0 {
				c.Filler = rapid.SampledFrom([]int{2000, 20000, 200000}).Draw(t, "filler")
				c.FillerAfter = rapid.IntRange(0, c.N).Draw(t, "fillerAfter")
				c.CancelInFiller = rapid.Bool().Draw(t, "cancelInFiller")
				c.FillerKind = rapid.IntRange(0, 2).Draw(t, "fillerKind")
				if c.CancelInFiller {
					c.CutAt = 0
				}
			}
			return c
		},
		Check:    checkXML,
		Classify: func(c XCase) (bool, []string) { return lastX.nontrivial, lastX.classes },
		Floors:   map[string]float64{"stop-mid-scan": 0.25, "cancel-during-scan": 0.06},
	})
}
