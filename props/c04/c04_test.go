// Package c04 decides C04: XML marshal/unmarshal round-trips every object and
// container, and the marshalled text is decodable by the whole-document
// decoder and by the streaming scanner with the same result.
package c04

import (
	"bytes"
	"context"
	"encoding/xml"
	"fmt"
	"reflect"
	"strings"
	"testing"

	"github.com/paulmach/osm"
	"github.com/paulmach/osm/osmxml"
	"pgregory.net/rapid"

	"verif/internal/harness"
	"verif/internal/osmdoc"
)

func TestMain(m *testing.M) { harness.Main(m, "C04") }

var cmp = osmdoc.Opt{}

func scan(text []byte) ([]osm.Object, error) {
	s := osmxml.New(context.Background(), strings.NewReader(string(text)))
	defer s.Close()
	var out []osm.Object
	for s.Scan() {
		out = append(out, s.Object())
	}
	return out, s.Err()
}

func scanDiff(text []byte, want []osmdoc.Item) string {
	got, err := scan(text)
	if err != nil {
		return fmt.Sprintf("scanner error on marshalled text: %v", err)
	}
	if len(got) != len(want) {
		return fmt.Sprintf("scanner yields %d objects from the marshalled text, the value holds %d", len(got), len(want))
	}
	for i := range want {
		if d := cmp.ObjectDiff(got[i], want[i]); d != "" {
			return fmt.Sprintf("scanner object %d (%s): %s", i, want[i].Kind(), d)
		}
	}
	return ""
}

// container order of OSM.MarshalXML: bounds, nodes, ways, relations, changesets, notes, users
func containerOrder(items []osmdoc.Item) []osmdoc.Item {
	var out []osmdoc.Item
	var b *osmdoc.Item
	for i := range items {
		if items[i].Bounds != nil {
			b = &items[i]
		}
	}
	if b != nil {
		out = append(out, *b)
	}
	for _, k := range []string{"node", "way", "relation", "changeset", "note", "user"} {
		for _, it := range items {
			if it.Kind() == k {
				out = append(out, it)
			}
		}
	}
	return out
}

// ---------------------------------------------------------------- single objects

// byValue marshals the value v points to (instead of the pointer) and requires
// the same text: every marshal method has a value receiver, so a value that is
// not addressable (a struct field, a dereferenced pointer) must not take a
// different encoding path.
func byValue(v any, data []byte, what string) error {
	val := reflect.ValueOf(v).Elem().Interface()
	d2, err := xml.Marshal(val)
	if err != nil {
		return harness.Failf("C04/marshal-error", "%s passed by value does not marshal: %v", what, err)
	}
	if !bytes.Equal(d2, data) {
		return harness.Failf("C04/by-value-differs", "%s marshals differently by value and by pointer:\n by value   %s\n by pointer %s", what, d2, data)
	}
	return nil
}

type ElemCase struct{ Item osmdoc.Item }

func checkElem(c ElemCase) error {
	it := c.Item
	var v, back any
	switch {
	case it.Node != nil:
		v, back = it.Node.OSM(), &osm.Node{}
	case it.Way != nil:
		v, back = it.Way.OSM(), &osm.Way{}
	case it.Relation != nil:
		v, back = it.Relation.OSM(), &osm.Relation{}
	case it.Changeset != nil:
		v, back = it.Changeset.OSM(), &osm.Changeset{}
	case it.Note != nil:
		v, back = it.Note.OSM(), &osm.Note{}
	case it.User != nil:
		v, back = it.User.OSM(), &osm.User{}
	case it.Bounds != nil:
		v, back = it.Bounds.OSM(), &osm.Bounds{}
	}
	data, err := xml.Marshal(v)
	if err != nil {
		return harness.Failf("C04/marshal-error", "%s does not marshal: %v", it.Kind(), err)
	}
	if err := byValue(v, data, it.Kind()); err != nil {
		return err
	}
	if err := xml.Unmarshal(data, back); err != nil {
		return harness.Failf("C04/unmarshal-error", "own output of %s does not unmarshal: %v\n%s", it.Kind(), err, data)
	}
	if d := cmp.ObjectDiff(back.(osm.Object), it); d != "" {
		return harness.Failf("C04/element-roundtrip", "%s: %s\n%s", it.Kind(), d, data)
	}
	// the scanner recognises the element from the text (a Bounds value marshalled
	// on its own is named after its Go type, <Bounds>; the scanner matches
	// element names without regard to case)
	if d := scanDiff(data, []osmdoc.Item{it}); d != "" {
		return harness.Failf("C04/element-names", "%s: %s\n%s", it.Kind(), d, data)
	}
	return nil
}

func TestElements(t *testing.T) {
	harness.Run(t, harness.Spec[ElemCase]{
		Name: "elements", N: 6000,
		Rule:  "single Node, Way (way-node versions/changesets/locations, updates, bounds, committed), Relation (member annotations incl. orientation and nested nodes, updates, bounds, committed), Changeset (tags, discussion), Note (comments, whole-second dates), User and Bounds values with XML-representable strings (tabs, newlines, carriage returns, leading/trailing blanks, markup characters, astral runes), finite floats, UTC times down to nanoseconds; oracle = Unmarshal(Marshal(v)) equals the model field for field, marshalling the value instead of the pointer gives the same text (also for the OSM, Change and Diff containers), and the streaming scanner decodes the same object from the text; non-trivial = value with at least one optional slice/pointer populated",
		Gen:   func(t *rapid.T) ElemCase { return ElemCase{Item: osmdoc.GenItem(t, osmdoc.GenOpt{}, "nwrcNub")} },
		Check: checkElem,
		Classify: func(c ElemCase) (bool, []string) {
			it := c.Item
			nt := false
			switch {
			case it.Node != nil:
				nt = len(it.Node.Tags) > 0 || it.Node.Committed != 0
			case it.Way != nil:
				nt = len(it.Way.Nodes) > 0 || len(it.Way.Updates) > 0 || it.Way.Bounds != nil
			case it.Relation != nil:
				nt = len(it.Relation.Members) > 0 || len(it.Relation.Updates) > 0
			case it.Changeset != nil:
				nt = len(it.Changeset.Discussion) > 0 || len(it.Changeset.Tags) > 0
			case it.Note != nil:
				nt = len(it.Note.Comments) > 0
			case it.User != nil:
				nt = len(it.User.Languages) > 0
			case it.Bounds != nil:
				nt = true
			}
			return nt, []string{"kind:" + it.Kind()}
		},
	})
}

// ---------------------------------------------------------------- OSM container

type OSMCase struct{ Doc *osmdoc.Doc }

func checkOSM(c OSMCase) error {
	v := c.Doc.OSM()
	data, err := xml.Marshal(v)
	if err != nil {
		return harness.Failf("C04/marshal-error", "OSM does not marshal: %v", err)
	}
	if err := byValue(v, data, "OSM"); err != nil {
		return err
	}
	var back osm.OSM
	if err := xml.Unmarshal(data, &back); err != nil {
		return harness.Failf("C04/unmarshal-error", "own output does not unmarshal: %v\n%s", err, data)
	}
	if back.Version != c.Doc.Version || back.Generator != c.Doc.Generator || back.Copyright != c.Doc.Copyright || back.Attribution != c.Doc.Attribution || back.License != c.Doc.License {
		return harness.Failf("C04/osm-roundtrip", "root attributes changed: %+v\n%s", back, data)
	}
	if d := cmp.OSMDiff(&back, c.Doc.Items); d != "" {
		return harness.Failf("C04/osm-roundtrip", "%s\n%s", d, data)
	}
	if d := scanDiff(data, containerOrder(c.Doc.Items)); d != "" {
		return harness.Failf("C04/osm-element-names", "%s\n%s", d, data)
	}
	return nil
}

func hasBounds(items []osmdoc.Item) bool {
	for _, it := range items {
		if it.Bounds != nil {
			return true
		}
	}
	return false
}

func TestOSMContainer(t *testing.T) {
	harness.Run(t, harness.Spec[OSMCase]{
		Name: "osm-container", N: 2500,
		Rule: "osm.OSM values with every element kind and (a third of the cases) a top-level Bounds; oracle = Unmarshal(Marshal(v)) equals the model, and the streaming scanner reads the marshalled text back as bounds, nodes, ways, relations, changesets, notes, users in container order; non-trivial = >= 2 kinds present",
		Gen: func(t *rapid.T) OSMCase {
			d := osmdoc.GenDoc(t, osmdoc.GenOpt{}, "nwrcNu")
			if rapid.IntRange(0, 2).Draw(t, "topBounds") == 0 {
				d.Items = append(d.Items, osmdoc.GenItem(t, osmdoc.GenOpt{}, "b"))
			}
			return OSMCase{Doc: d}
		},
		Check: checkOSM,
		Classify: func(c OSMCase) (bool, []string) {
			kinds := map[string]bool{}
			for _, it := range c.Doc.Items {
				kinds[it.Kind()] = true
			}
			var cl []string
			if hasBounds(c.Doc.Items) {
				cl = append(cl, "top-level-bounds")
			}
			return len(kinds) >= 2, cl
		},
		Floors: map[string]float64{"top-level-bounds": 0.2},
	})
}

// ---------------------------------------------------------------- Change container

type ChangeCase struct {
	Version, Generator              string
	Copyright, Attribution, License string
	Create, Modify, Delete          []osmdoc.Item
	NilCreate, NilModify, NilDelete bool // nil pointer instead of an (empty) block
}

func block(items []osmdoc.Item, isNil bool) *osm.OSM {
	if isNil && len(items) == 0 {
		return nil
	}
	return osmdoc.ItemsOSM(items)
}

func checkChange(c ChangeCase) error {
	v := &osm.Change{Version: c.Version, Generator: c.Generator, Copyright: c.Copyright, Attribution: c.Attribution, License: c.License, Create: block(c.Create, c.NilCreate), Modify: block(c.Modify, c.NilModify), Delete: block(c.Delete, c.NilDelete)}
	data, err := xml.Marshal(v)
	if err != nil {
		return harness.Failf("C04/marshal-error", "Change does not marshal: %v", err)
	}
	if err := byValue(v, data, "Change"); err != nil {
		return err
	}
	var back osm.Change
	if err := xml.Unmarshal(data, &back); err != nil {
		return harness.Failf("C04/unmarshal-error", "own osmChange output does not unmarshal: %v\n%s", err, data)
	}
	if back.Version != c.Version || back.Generator != c.Generator || back.Copyright != c.Copyright || back.Attribution != c.Attribution || back.License != c.License {
		return harness.Failf("C04/change-roundtrip", "root attributes changed: got %q %q %q %q %q want %q %q %q %q %q\n%s", back.Version, back.Generator, back.Copyright, back.Attribution, back.License, c.Version, c.Generator, c.Copyright, c.Attribution, c.License, data)
	}
	var all []osmdoc.Item
	for _, b := range []struct {
		name  string
		got   *osm.OSM
		items []osmdoc.Item
	}{{"create", back.Create, c.Create}, {"modify", back.Modify, c.Modify}, {"delete", back.Delete, c.Delete}} {
		if d := cmp.OSMDiff(b.got, b.items); d != "" {
			return harness.Failf("C04/change-roundtrip", "%s block: %s\n%s", b.name, d, data)
		}
		all = append(all, containerOrder(b.items)...)
	}
	if d := scanDiff(data, all); d != "" {
		return harness.Failf("C04/change-element-names", "%s\n%s", d, data)
	}
	return nil
}

func optS(t *rapid.T, l string) string {
	if rapid.Bool().Draw(t, l+"?") {
		return osmdoc.Str(t, l)
	}
	return ""
}

func TestChangeContainer(t *testing.T) {
	harness.Run(t, harness.Spec[ChangeCase]{
		Name: "change-container", N: 2500,
		Rule: "osm.Change values with nil / empty / populated create, modify and delete blocks of nodes, ways and relations, each block possibly with Bounds; oracle = round trip equals the model per block (nil and empty are the same), scanner reads the text back in block and container order; non-trivial = >= 2 populated blocks",
		Gen: func(t *rapid.T) ChangeCase {
			gen := func(l string) []osmdoc.Item {
				kinds := "nwr"
				if rapid.IntRange(0, 2).Draw(t, l+"bounds") == 0 {
					kinds = "nwrb"
				}
				return osmdoc.GenItems(t, osmdoc.GenOpt{}, kinds, 4)
			}
			return ChangeCase{Version: rapid.SampledFrom([]string{"", "0.6"}).Draw(t, "v"), Generator: osmdoc.Str(t, "gen"),
				Copyright: optS(t, "copyright"), Attribution: optS(t, "attribution"), License: optS(t, "license"), Create: gen("c"), Modify: gen("m"), Delete: gen("d"),
				NilCreate: rapid.Bool().Draw(t, "nc"), NilModify: rapid.Bool().Draw(t, "nm"), NilDelete: rapid.Bool().Draw(t, "nd")}
		},
		Check: checkChange,
		Classify: func(c ChangeCase) (bool, []string) {
			n := 0
			var cl []string
			for _, b := range [][]osmdoc.Item{c.Create, c.Modify, c.Delete} {
				if len(b) > 0 {
					n++
				}
				if hasBounds(b) {
					cl = append(cl, "block-bounds")
				}
			}
			if len(cl) > 1 {
				cl = cl[:1]
			}
			return n >= 2, cl
		},
		Floors: map[string]float64{"block-bounds": 0.2},
	})
}

// ---------------------------------------------------------------- Diff container

type DiffCase struct {
	Doc        *osmdoc.DiffDoc
	Changesets []osmdoc.Item
}

func checkDiff(c DiffCase) error {
	v := &osm.Diff{}
	for _, a := range c.Doc.Actions {
		act := osm.Action{Type: osm.ActionType(a.Type)}
		if a.Elem != nil {
			act.OSM = osmdoc.ItemsOSM([]osmdoc.Item{*a.Elem})
		} else {
			act.Old = osmdoc.ItemsOSM(a.Old)
			act.New = osmdoc.ItemsOSM(a.New)
		}
		v.Actions = append(v.Actions, act)
	}
	for _, it := range c.Changesets {
		v.Changesets = append(v.Changesets, it.Changeset.OSM())
	}
	data, err := xml.Marshal(v)
	if err != nil {
		return harness.Failf("C04/marshal-error", "Diff does not marshal: %v", err)
	}
	if err := byValue(v, data, "Diff"); err != nil {
		return err
	}
	var back osm.Diff
	if err := xml.Unmarshal(data, &back); err != nil {
		return harness.Failf("C04/unmarshal-error", "own diff output does not unmarshal: %v\n%s", err, data)
	}
	if len(back.Actions) != len(c.Doc.Actions) {
		return harness.Failf("C04/diff-roundtrip", "%d actions after the round trip, %d before\n%s", len(back.Actions), len(c.Doc.Actions), data)
	}
	var all []osmdoc.Item
	for i, a := range c.Doc.Actions {
		g := back.Actions[i]
		if string(g.Type) != a.Type {
			return harness.Failf("C04/diff-roundtrip", "action %d type %q want %q", i, g.Type, a.Type)
		}
		if a.Elem != nil {
			if d := cmp.OSMDiff(g.OSM, []osmdoc.Item{*a.Elem}); d != "" {
				return harness.Failf("C04/diff-roundtrip", "create action %d: %s\n%s", i, d, data)
			}
			all = append(all, *a.Elem)
			continue
		}
		if d := cmp.OSMDiff(g.Old, a.Old); d != "" {
			return harness.Failf("C04/diff-roundtrip", "%s action %d old: %s\n%s", a.Type, i, d, data)
		}
		if d := cmp.OSMDiff(g.New, a.New); d != "" {
			return harness.Failf("C04/diff-roundtrip", "%s action %d new: %s\n%s", a.Type, i, d, data)
		}
		all = append(all, containerOrder(a.Old)...)
		all = append(all, containerOrder(a.New)...)
	}
	if len(back.Changesets) != len(c.Changesets) {
		return harness.Failf("C04/diff-roundtrip", "%d changesets after the round trip, %d before", len(back.Changesets), len(c.Changesets))
	}
	for i, it := range c.Changesets {
		if d := cmp.ChangesetDiff(back.Changesets[i], it.Changeset); d != "" {
			return harness.Failf("C04/diff-roundtrip", "changeset %d: %s", i, d)
		}
	}
	all = append(all, c.Changesets...)
	if d := scanDiff(data, all); d != "" {
		return harness.Failf("C04/diff-element-names", "%s\n%s", d, data)
	}
	return nil
}

func TestDiffContainer(t *testing.T) {
	harness.Run(t, harness.Spec[DiffCase]{
		Name: "diff-container", N: 2000,
		Rule: "osm.Diff values: create actions with exactly one element, modify/delete actions with old and new (a third of them also carrying bounds, changesets, notes, users), optional changesets; oracle = round trip equals the model action by action, scanner reads the text back in document order; non-trivial = >= 2 actions of different types",
		Gen: func(t *rapid.T) DiffCase {
			c := DiffCase{Doc: osmdoc.GenDiffRich(t, osmdoc.GenOpt{})}
			if rapid.IntRange(0, 2).Draw(t, "cs") == 0 {
				c.Changesets = osmdoc.GenItems(t, osmdoc.GenOpt{}, "c", 2)
			}
			return c
		},
		Check: checkDiff,
		Classify: func(c DiffCase) (bool, []string) {
			types := map[string]bool{}
			for _, a := range c.Doc.Actions {
				types[a.Type] = true
			}
			return len(types) >= 2, nil
		},
	})
}
