// Package c15 decides C15: applying updates is exact, composable and agrees
// with the geometry-at-time query.
package c15

import (
	"fmt"
	"math"
	"sort"
	"testing"
	"time"

	"github.com/paulmach/orb"
	"github.com/paulmach/osm"
	"pgregory.net/rapid"

	"verif/internal/harness"
)

func TestMain(m *testing.M) { harness.Main(m, "C15") }

type Upd struct {
	Index   int
	Version int
	TS      int64 // offset in half seconds from the base time
	CS      int64
	Lat     float64
	Lon     float64
	Reverse bool
}

type Child struct {
	Version     int
	CS          int64
	Lat, Lon    float64
	Orientation int
}

type Case struct {
	IsWay     bool
	Children  []Child
	Updates   []Upd
	T, T1, T2 int64 // query times (same unit); T1 <= T2
	Order     int   // 0 index-sorted (as annotation emits), 1 time-sorted, 2 as drawn (shuffled)
	QZone     int   // location of the query times: 0 UTC, 1 +01:00, 2 a zero-offset fixed zone, 3 -05:30 (same instants)
	UZone     int   // location of the update timestamps
	// OwnTime: the parent's own time, which neither operation consults:
	// 0 zero; 1 Timestamp = OwnTS; 2 Committed = OwnTS and Timestamp a minute earlier.
	OwnTime int
	OwnTS   int64
}

var base = time.Date(2015, 3, 1, 12, 0, 0, 0, time.UTC)

var zones = []*time.Location{time.UTC, time.FixedZone("", 3600), time.FixedZone("", 0), time.FixedZone("", -(5*3600 + 1800))}

func at(ts int64) time.Time { return base.Add(time.Duration(ts) * 500 * time.Millisecond) }

// q is a query time: the same instant, possibly carried in another location
func (c *Case) q(ts int64) time.Time { return at(ts).In(zones[c.QZone%len(zones)]) }

func (c *Case) way() *osm.Way {
	w := &osm.Way{ID: 7, Version: 3, Visible: true, Tags: osm.Tags{{Key: "highway", Value: "x"}}}
	for i, ch := range c.Children {
		w.Nodes = append(w.Nodes, osm.WayNode{ID: osm.NodeID(100 + i), Version: ch.Version, ChangesetID: osm.ChangesetID(ch.CS), Lat: ch.Lat, Lon: ch.Lon})
	}
	w.Updates = c.updates()
	switch c.OwnTime {
	case 1:
		w.Timestamp = at(c.OwnTS)
	case 2:
		cm := at(c.OwnTS)
		w.Committed = &cm
		w.Timestamp = cm.Add(-time.Minute)
	}
	return w
}

func (c *Case) relation() *osm.Relation {
	r := &osm.Relation{ID: 9, Version: 2, Visible: true, Tags: osm.Tags{{Key: "type", Value: "multipolygon"}}}
	for i, ch := range c.Children {
		r.Members = append(r.Members, osm.Member{Type: osm.TypeWay, Ref: int64(200 + i), Role: "outer", Version: ch.Version, ChangesetID: osm.ChangesetID(ch.CS), Lat: ch.Lat, Lon: ch.Lon, Orientation: orb.Orientation(ch.Orientation)})
	}
	r.Updates = c.updates()
	switch c.OwnTime {
	case 1:
		r.Timestamp = at(c.OwnTS)
	case 2:
		cm := at(c.OwnTS)
		r.Committed = &cm
		r.Timestamp = cm.Add(-time.Minute)
	}
	return r
}

func (c *Case) ordered() []Upd {
	us := append([]Upd(nil), c.Updates...)
	switch c.Order {
	case 0:
		sort.SliceStable(us, func(i, j int) bool {
			if us[i].Index != us[j].Index {
				return us[i].Index < us[j].Index
			}
			return us[i].TS < us[j].TS
		})
	case 1:
		sort.SliceStable(us, func(i, j int) bool { return us[i].TS < us[j].TS })
	}
	return us
}

func (c *Case) updates() osm.Updates {
	var out osm.Updates
	for _, u := range c.ordered() {
		out = append(out, osm.Update{Index: u.Index, Version: u.Version, Timestamp: at(u.TS).In(zones[c.UZone%len(zones)]), ChangesetID: osm.ChangesetID(u.CS), Lat: u.Lat, Lon: u.Lon, Reverse: u.Reverse})
	}
	return out
}

// reference apply
func refApply(children []Child, us []Upd, t int64, isWay bool) (out []Child, pending []Upd, errIndex int) {
	out = append([]Child(nil), children...)
	errIndex = -1
	for _, u := range us {
		if u.TS > t {
			pending = append(pending, u)
			continue
		}
		if u.Index >= len(out) {
			return out, nil, u.Index
		}
		ch := &out[u.Index]
		ch.Version, ch.CS, ch.Lat, ch.Lon = u.Version, u.CS, u.Lat, u.Lon
		if u.Reverse && !isWay {
			ch.Orientation *= -1
		}
	}
	return out, pending, -1
}

func childrenOfWay(w *osm.Way) []Child {
	var out []Child
	for _, n := range w.Nodes {
		out = append(out, Child{Version: n.Version, CS: int64(n.ChangesetID), Lat: n.Lat, Lon: n.Lon})
	}
	return out
}

func childrenOfRel(r *osm.Relation) []Child {
	var out []Child
	for _, m := range r.Members {
		out = append(out, Child{Version: m.Version, CS: int64(m.ChangesetID), Lat: m.Lat, Lon: m.Lon, Orientation: int(m.Orientation)})
	}
	return out
}

func eqChildren(a, b []Child, isWay bool) string {
	if len(a) != len(b) {
		return fmt.Sprintf("child count %d vs %d", len(a), len(b))
	}
	for i := range a {
		x, y := a[i], b[i]
		if isWay {
			x.Orientation, y.Orientation = 0, 0
		}
		if x != y {
			return fmt.Sprintf("child %d: got %+v want %+v", i, x, y)
		}
	}
	return ""
}

func eqPending(got osm.Updates, want []Upd) string {
	if len(got) != len(want) {
		return fmt.Sprintf("%d pending updates, want %d", len(got), len(want))
	}
	for i, w := range want {
		g := got[i]
		if g.Index != w.Index || g.Version != w.Version || !g.Timestamp.Equal(at(w.TS)) || int64(g.ChangesetID) != w.CS || g.Lat != w.Lat || g.Lon != w.Lon || g.Reverse != w.Reverse {
			return fmt.Sprintf("pending update %d: got %+v want %+v", i, g, w)
		}
	}
	return ""
}

type elem interface {
	ApplyUpdatesUpTo(time.Time) error
}

func (c *Case) apply(t int64) (children []Child, pending osm.Updates, identityOK bool, err error) {
	if c.IsWay {
		w := c.way()
		err = w.ApplyUpdatesUpTo(c.q(t))
		ok := w.ID == 7 && w.Version == 3 && w.Visible && len(w.Tags) == 1 && len(w.Nodes) == len(c.Children)
		for i, n := range w.Nodes {
			ok = ok && n.ID == osm.NodeID(100+i)
		}
		return childrenOfWay(w), w.Updates, ok, err
	}
	r := c.relation()
	err = r.ApplyUpdatesUpTo(c.q(t))
	ok := r.ID == 9 && r.Version == 2 && r.Visible && len(r.Tags) == 1 && len(r.Members) == len(c.Children)
	for i, m := range r.Members {
		ok = ok && m.Ref == int64(200+i) && m.Type == osm.TypeWay && m.Role == "outer"
	}
	return childrenOfRel(r), r.Updates, ok, err
}

func perChildTimeOrdered(us []Upd) bool {
	last := map[int]int64{}
	for _, u := range us {
		if l, ok := last[u.Index]; ok && u.TS < l {
			return false
		}
		last[u.Index] = u.TS
	}
	return true
}

func check(c Case) error {
	us := c.ordered()
	// 1. exact application
	wantCh, wantPending, errIdx := refApply(c.Children, us, c.T, c.IsWay)
	gotCh, gotPending, idOK, err := c.apply(c.T)
	if errIdx >= 0 {
		e, ok := err.(*osm.UpdateIndexOutOfRangeError)
		if !ok {
			return harness.Failf("C15/out-of-range-error", "update index %d beyond %d children: error is %T %v", errIdx, len(c.Children), err, err)
		}
		if e.Index != errIdx {
			return harness.Failf("C15/out-of-range-error", "error names index %d, the offending update has index %d", e.Index, errIdx)
		}
		// the failed call loses nothing: every update stamped after t is still
		// listed, in its original order
		var later []Upd
		for _, u := range us {
			if u.TS > c.T {
				later = append(later, u)
			}
		}
		k := 0
		for _, u := range gotPending {
			if k < len(later) && eqPending(osm.Updates{u}, []Upd{later[k]}) == "" {
				k++
			}
		}
		if k != len(later) {
			return harness.Failf("C15/pending-lost-on-error", "ApplyUpdatesUpTo(t=%d) failed on index %d; afterwards %d of the %d updates stamped after t are still listed in order (update list now has %d entries)", c.T, errIdx, k, len(later), len(gotPending))
		}
	} else {
		if err != nil {
			return harness.Failf("C15/unexpected-error", "ApplyUpdatesUpTo failed: %v", err)
		}
		if !idOK {
			return harness.Failf("C15/identity-changed", "ApplyUpdatesUpTo changed fields other than the children's annotations")
		}
		if d := eqChildren(gotCh, wantCh, c.IsWay); d != "" {
			return harness.Failf("C15/apply-wrong-children", "apply up to t=%d (order %d, way=%v): %s", c.T, c.Order, c.IsWay, d)
		}
		if d := eqPending(gotPending, wantPending); d != "" {
			return harness.Failf("C15/pending", "apply up to t=%d: %s", c.T, d)
		}
	}
	// 1b. a struct copy with its own child list shares the update list with the
	// original; applying the updates on the copy leaves the original as it was
	if errIdx < 0 {
		var before, after string
		if c.IsWay {
			w := c.way()
			before = fmt.Sprint(w.Nodes, w.Updates)
			cp := *w
			cp.Nodes = append(osm.WayNodes(nil), w.Nodes...)
			cp.ApplyUpdatesUpTo(c.q(c.T))
			after = fmt.Sprint(w.Nodes, w.Updates)
		} else {
			r := c.relation()
			before = fmt.Sprint(r.Members, r.Updates)
			cp := *r
			cp.Members = append(osm.Members(nil), r.Members...)
			cp.ApplyUpdatesUpTo(c.q(c.T))
			after = fmt.Sprint(r.Members, r.Updates)
		}
		if before != after {
			return harness.Failf("C15/apply-on-copy-changes-original", "applying the updates up to t=%d on a struct copy (own child list, shared update list) changed the original (way=%v):\n before %s\n after  %s", c.T, c.IsWay, before, after)
		}
	}
	// 2. Updates.UpTo
	var wantUpTo []Upd
	for _, u := range us {
		if u.TS <= c.T {
			wantUpTo = append(wantUpTo, u)
		}
	}
	if d := eqPending(c.updates().UpTo(c.q(c.T)), wantUpTo); d != "" {
		return harness.Failf("C15/upto", "Updates.UpTo(t=%d): %s", c.T, d)
	}
	inRange := true
	for _, u := range us {
		if u.Index >= len(c.Children) {
			inRange = false
		}
	}
	// 3. composition
	if inRange && perChildTimeOrdered(us) {
		direct, _, _, _ := c.apply(c.T2)
		var twice []Child
		var pend osm.Updates
		if c.IsWay {
			w := c.way()
			if err := w.ApplyUpdatesUpTo(c.q(c.T1)); err != nil {
				return harness.Failf("C15/unexpected-error", "%v", err)
			}
			if err := w.ApplyUpdatesUpTo(c.q(c.T2)); err != nil {
				return harness.Failf("C15/unexpected-error", "%v", err)
			}
			twice, pend = childrenOfWay(w), w.Updates
		} else {
			r := c.relation()
			if err := r.ApplyUpdatesUpTo(c.q(c.T1)); err != nil {
				return harness.Failf("C15/unexpected-error", "%v", err)
			}
			if err := r.ApplyUpdatesUpTo(c.q(c.T2)); err != nil {
				return harness.Failf("C15/unexpected-error", "%v", err)
			}
			twice, pend = childrenOfRel(r), r.Updates
		}
		if d := eqChildren(twice, direct, c.IsWay); d != "" {
			return harness.Failf("C15/not-composable", "apply(t1=%d);apply(t2=%d) differs from apply(t2): %s", c.T1, c.T2, d)
		}
		_, wantP2, _ := refApply(c.Children, us, c.T2, c.IsWay)
		if d := eqPending(pend, wantP2); d != "" {
			return harness.Failf("C15/not-composable", "pending after apply(t1);apply(t2): %s", d)
		}
	}
	// 4. geometry at time == geometry of an updated copy (fully annotated ways)
	if c.IsWay && inRange && fullyAnnotated(c) {
		w := c.way()
		before := fmt.Sprint(w.Nodes, w.Updates)
		got := w.LineStringAt(c.q(c.T))
		if fmt.Sprint(w.Nodes, w.Updates) != before {
			return harness.Failf("C15/linestringat-mutates", "LineStringAt modified the way")
		}
		// the copy is a struct copy with its own node list; the update list is
		// shared with the original, which must not notice
		cpv := *w
		cp := &cpv
		cp.Nodes = append(osm.WayNodes(nil), w.Nodes...)
		if err := cp.ApplyUpdatesUpTo(c.q(c.T)); err != nil {
			return harness.Failf("C15/unexpected-error", "%v", err)
		}
		if fmt.Sprint(w.Nodes, w.Updates) != before {
			return harness.Failf("C15/apply-on-copy-changes-original", "applying the updates on a struct copy (own node list, shared update list) changed the original way:\n before %s\n after  %s", before, fmt.Sprint(w.Nodes, w.Updates))
		}
		want := cp.LineString()
		if len(got) != len(want) {
			return harness.Failf("C15/geometry-at-time", "LineStringAt(t=%d) has %d points, updated copy %d", c.T, len(got), len(want))
		}
		for i := range got {
			if got[i] != want[i] {
				return harness.Failf("C15/geometry-at-time", "LineStringAt(t=%d) point %d = %v, LineString() of the copy updated to t = %v (update order %d: %+v)", c.T, i, got[i], want[i], c.Order, us)
			}
		}
	}
	return nil
}

func fullyAnnotated(c Case) bool {
	for _, ch := range c.Children {
		if ch.Version < 1 || (ch.Lat == 0 && ch.Lon == 0) {
			return false
		}
	}
	for _, u := range c.Updates {
		if u.Version < 1 || (u.Lat == 0 && u.Lon == 0) {
			return false
		}
	}
	return true
}

func classify(c Case) (bool, []string) {
	us := c.ordered()
	nt := false
	seenLate := false
	for _, u := range us {
		if u.TS > c.T {
			seenLate = true
		} else if seenLate {
			nt = true
		}
	}
	var cl []string
	if nt {
		cl = append(cl, "late-update-stored-before-due-update")
	}
	inRange := true
	for _, u := range us {
		if u.Index >= len(c.Children) {
			inRange = false
		}
	}
	if !inRange {
		cl = append(cl, "index-out-of-range")
	}
	if c.IsWay && inRange && fullyAnnotated(c) {
		cl = append(cl, "geometry-clause")
	}
	if inRange && perChildTimeOrdered(us) {
		cl = append(cl, "composition-clause")
	}
	cl = append(cl, []string{"order:index-sorted", "order:time-sorted", "order:shuffled"}[c.Order])
	return nt, cl
}

func TestUpdates(t *testing.T) {
	coord := rapid.Custom(func(t *rapid.T) float64 {
		return float64(rapid.IntRange(-9000000, 9000000).Draw(t, "c")) / 1e5
	})
	harness.Run(t, harness.Spec[Case]{
		Name: "updates", N: 30000,
		Rule: "ways and relations with 0..8 children and 0..20 updates stored index-sorted (as annotation emits), time-sorted or shuffled; indices in range or (15% of cases) one beyond the list - by 0..2, or far beyond around 2^31, 2^32 (+ a valid index), 2^40, MaxInt64; one update in eight listed twice in a row; equal timestamps, half-second offsets; Reverse flags on relation members; times t and t1<=t2 on and off the update timestamps; the parent's own timestamp / commit time zero, before, between or after them; 60% of the ways fully annotated for the geometry clause; oracle = a reference apply written in the harness (exact children, pending list in original order, typed out-of-range error), apply(t1);apply(t2)==apply(t2) when each child's updates are time-ordered, Updates.UpTo == filter, LineStringAt(t) == LineString() of a copy updated to t (a struct copy with its own node list that shares the update list; the original must stay as it was); non-trivial = the stored list has an update later than t before one that is due",
		Gen: func(t *rapid.T) Case {
			c := Case{IsWay: rapid.IntRange(0, 2).Draw(t, "way") != 0, Order: rapid.SampledFrom([]int{0, 0, 0, 2, 2, 1}).Draw(t, "order")}
			full := rapid.IntRange(0, 9).Draw(t, "full") < 6
			nc := rapid.IntRange(0, 8).Draw(t, "nchildren")
			ver := func(l string) int {
				if full {
					return rapid.IntRange(1, 9).Draw(t, l)
				}
				return rapid.IntRange(0, 9).Draw(t, l)
			}
			loc := func(l string) (float64, float64) {
				la, lo := coord.Draw(t, l+"lat"), coord.Draw(t, l+"lon")
				if !full && rapid.IntRange(0, 4).Draw(t, l+"zero") == 0 {
					return 0, 0
				}
				if full && la == 0 && lo == 0 {
					la = 1
				}
				return la, lo
			}
			for i := 0; i < nc; i++ {
				la, lo := loc("c")
				c.Children = append(c.Children, Child{Version: ver("cv"), CS: int64(rapid.IntRange(0, 50).Draw(t, "ccs")), Lat: la, Lon: lo, Orientation: rapid.IntRange(-1, 1).Draw(t, "or")})
			}
			nu := 0
			if nc > 0 || rapid.Bool().Draw(t, "updatesOnEmpty") {
				nu = rapid.SampledFrom([]int{0, 1, 2, 3, 4, 5, 6, 8, 10, 13, 16, 20}).Draw(t, "nupdates")
			}
			beyond := rapid.IntRange(0, 6).Draw(t, "beyond") == 0
			for i := 0; i < nu; i++ {
				idx := 0
				if nc > 0 {
					idx = rapid.IntRange(0, nc-1).Draw(t, "idx")
				}
				if nc == 0 || (beyond && i == nu/2) {
					idx = nc + rapid.IntRange(0, 2).Draw(t, "over")
					if rapid.IntRange(0, 2).Draw(t, "far") == 0 {
						// far beyond the list, around the 31/32-bit boundaries
						idx = rapid.SampledFrom([]int{1 << 31, 1<<31 + 1, 1 << 32, 1<<32 + 1, 1<<32 + nc - 1, 1<<32 + nc, 1 << 40, math.MaxInt64}).Draw(t, "farIdx")
						if idx < nc {
							idx = 1 << 32
						}
					}
				}
				la, lo := loc("u")
				c.Updates = append(c.Updates, Upd{Index: idx, Version: ver("uv"), TS: int64(rapid.IntRange(0, 24).Draw(t, "ts")), CS: int64(rapid.IntRange(0, 50).Draw(t, "ucs")), Lat: la, Lon: lo, Reverse: rapid.Bool().Draw(t, "rev")})
				if rapid.IntRange(0, 7).Draw(t, "dup") == 0 {
					// the same update listed twice in a row
					c.Updates = append(c.Updates, c.Updates[len(c.Updates)-1])
					i++
				}
			}
			pick := func(l string) int64 {
				if len(c.Updates) > 0 && rapid.IntRange(0, 3).Draw(t, l+"on") != 0 {
					u := c.Updates[rapid.IntRange(0, len(c.Updates)-1).Draw(t, l+"of")]
					return u.TS + int64(rapid.IntRange(-1, 1).Draw(t, l+"off"))
				}
				return int64(rapid.IntRange(-2, 26).Draw(t, l))
			}
			c.T = pick("t")
			c.T1 = pick("t1")
			c.QZone = rapid.SampledFrom([]int{0, 0, 1, 2, 3}).Draw(t, "qzone")
			c.UZone = rapid.SampledFrom([]int{0, 0, 0, 1, 2}).Draw(t, "uzone")
			c.T2 = c.T1 + int64(rapid.IntRange(0, 20).Draw(t, "dt"))
			c.OwnTime = rapid.SampledFrom([]int{0, 0, 1, 2}).Draw(t, "ownTime")
			c.OwnTS = int64(rapid.IntRange(-2, 30).Draw(t, "ownTS"))
			return c
		},
		Check:    check,
		Classify: classify,
		Floors:   map[string]float64{"late-update-stored-before-due-update": 0.2, "geometry-clause": 0.2, "composition-clause": 0.2, "index-out-of-range": 0.05},
	})
}
