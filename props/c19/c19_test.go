// Package c19 decides C19: replication state lookup by time terminates with
// the first state at or after t.
package c19

import (
	"compress/gzip"
	"context"
	"errors"
	"fmt"
	"io"
	"math/bits"
	"net/http"
	"net/http/httptest"
	"strings"
	"testing"
	"time"

	"github.com/paulmach/osm/replication"
	"pgregory.net/rapid"

	"verif/internal/harness"
)

func TestMain(m *testing.M) { harness.Main(m, "C19") }

type Case struct {
	Kind     int    // 0 minute, 1 hour, 2 day, 3 changesets
	First    int    // first sequence number that may exist (1..)
	Gaps     []int  // per sequence number from First: seconds since the previous state (>0)
	Missing  []bool // per sequence number from First: state file absent (the last one is never absent)
	Query    int    // seconds after the base time
	TimeFmt  int    // which accepted time layout the server uses
	Layout   int    // ordering / extra lines variant of the interval state file
	Prefix   string // base URL path prefix
	Loopback bool   // go through a real loopback HTTP server instead of a RoundTripper
	QZone    int    // the query time is also passed in this location (same instant): 1 +01:00, 2 zero-offset fixed zone, 3 -05:30
	// BigLine: interval state files start with a txnActiveList line of this
	// many bytes (the planet lists every open transaction id on one line).
	BigLine int
	// OwnNumber: numbered changeset state files carry their own number, as
	// the planet's files before 2008004 do; state.yaml is off by one as ever.
	OwnNumber bool
	// QueryMS: milliseconds added to the query time (state timestamps have
	// whole seconds; a query a fraction of a second after a state lies after it).
	QueryMS int
	// Refuse > 0: the state file of the Refuse-th existing sequence number
	// (modulo) is answered with RefuseStatus (403, 408, 429): a refusal is not a
	// missing file.
	Refuse       int
	RefuseStatus int
}

var qzones = []*time.Location{time.UTC, time.FixedZone("", 3600), time.FixedZone("", 0), time.FixedZone("", -(5*3600 + 1800))}

var dirs = []string{"minute", "hour", "day", "changesets"}
var base = time.Date(2020, 1, 1, 0, 0, 0, 0, time.UTC)

type server struct {
	c       *Case
	states  map[uint64]time.Time
	cur     uint64
	n       int
	budget  int
	badPath string
	refuse  uint64 // sequence number answered with a refusal (0 = none)
	refused int    // refusals served
}

var errBudget = errors.New("harness: request budget exceeded")

func fmtTime(ts time.Time, f int, yaml bool) string {
	if yaml {
		if f%2 == 0 {
			return ts.Format("2006-01-02 15:04:05.000000000 Z")
		}
		return ts.Format("2006-01-02 15:04:05.000000000 +00:00")
	}
	return strings.ReplaceAll(ts.Format("2006-01-02T15:04:05Z"), ":", "\\:")
}

func (s *server) respond(path string) (int, string) {
	s.n++
	dir := dirs[s.c.Kind]
	pre := s.c.Prefix + "/replication/" + dir + "/"
	if !strings.HasPrefix(path, pre) {
		s.badPath = path
		return 500, ""
	}
	rest := path[len(pre):]
	var seq uint64
	current := false
	switch {
	case s.c.Kind != 3 && rest == "state.txt", s.c.Kind == 3 && rest == "state.yaml":
		seq, current = s.cur, true
	default:
		var a, b, c uint64
		if len(rest) != len("000/000/000.state.txt") {
			s.badPath = path
			return 500, ""
		}
		if n, err := fmt.Sscanf(rest, "%03d/%03d/%03d.state.txt", &a, &b, &c); err != nil || n != 3 || rest != fmt.Sprintf("%03d/%03d/%03d.state.txt", a, b, c) {
			s.badPath = path
			return 500, ""
		}
		seq = a*1000000 + b*1000 + c
	}
	ts, ok := s.states[seq]
	if !ok {
		return 404, "not found"
	}
	if s.refuse != 0 && seq == s.refuse && !current {
		s.refused++
		return s.c.RefuseStatus, "try again later"
	}
	if s.c.Kind == 3 {
		// the planet's changeset state: the number inside is one less than the file name
		inside := seq - 1
		if s.c.OwnNumber && !current {
			inside = seq
		}
		return 200, fmt.Sprintf("---\nlast_run: %s\nsequence: %d\n", fmtTime(ts, s.c.TimeFmt, true), inside)
	}
	lines := []string{
		"#Sat Jul 16 06:14:03 UTC 2016",
		"txnMaxQueried=836439235",
		fmt.Sprintf("sequenceNumber=%d", seq),
		"timestamp=" + fmtTime(ts, 0, false),
		"txnReadyList=",
		"txnMax=836439235",
		"txnActiveList=836439008",
	}
	switch s.c.Layout % 3 {
	case 1:
		lines = []string{lines[3], lines[0], lines[5], lines[2], lines[1]}
	case 2:
		lines = []string{lines[2], lines[3]}
	}
	if s.c.BigLine > 0 {
		var sb strings.Builder
		sb.WriteString("txnActiveList=")
		for sb.Len() < s.c.BigLine {
			sb.WriteString("836439008,")
		}
		lines = append([]string{sb.String()}, lines...)
	}
	return 200, strings.Join(lines, "\n") + "\n"
}

func (s *server) RoundTrip(req *http.Request) (*http.Response, error) {
	if s.n >= s.budget {
		return nil, errBudget
	}
	if req.Method != http.MethodGet {
		s.badPath = req.Method + " " + req.URL.Path
	}
	code, body := s.respond(req.URL.Path)
	return &http.Response{StatusCode: code, Body: io.NopCloser(strings.NewReader(body)), Header: http.Header{}, Request: req}, nil
}

func (s *server) ServeHTTP(w http.ResponseWriter, req *http.Request) {
	if s.n >= s.budget {
		w.WriteHeader(503)
		return
	}
	code, body := s.respond(req.URL.Path)
	if strings.Contains(req.Header.Get("Accept-Encoding"), "gzip") {
		// like the planet server: compress when the client offers it (Go's
		// transport offers it by itself and decompresses transparently)
		w.Header().Set("Content-Encoding", "gzip")
		w.WriteHeader(code)
		zw := gzip.NewWriter(w)
		io.WriteString(zw, body)
		zw.Close()
		return
	}
	w.WriteHeader(code)
	io.WriteString(w, body)
}

func (c *Case) world() (states map[uint64]time.Time, cur uint64, missing int) {
	states = map[uint64]time.Time{}
	ts := 0
	n := len(c.Gaps)
	cur = uint64(c.First + n - 1)
	missing = c.First - 1
	for i := 0; i < n; i++ {
		ts += c.Gaps[i]
		seq := uint64(c.First + i)
		if i != n-1 && i < len(c.Missing) && c.Missing[i] {
			missing++
			continue
		}
		states[seq] = base.Add(time.Duration(ts) * time.Second)
	}
	return
}

var lastNT bool

func check(c Case) error {
	states, cur, missing := c.world()
	q := base.Add(time.Duration(c.Query)*time.Second + time.Duration(c.QueryMS)*time.Millisecond)
	want := cur
	for s := uint64(1); s <= cur; s++ {
		if st, ok := states[s]; ok && !st.Before(q) {
			want = s
			break
		}
	}
	srv := &server{c: &c, states: states, cur: cur}
	if c.Refuse > 0 {
		var have []uint64
		for s := uint64(1); s < cur; s++ {
			if _, ok := states[s]; ok {
				have = append(have, s)
			}
		}
		if len(have) > 0 {
			srv.refuse = have[c.Refuse%len(have)]
		}
	}
	srv.budget = 8*(bits.Len64(cur)+2) + 4*missing + 16
	if c.First > 2000 {
		// far sequence numbers are only generated gap-free with the query after the
		// second state: a state before t is reachable by bisection, so the missing
		// prefix does not have to be stepped over (bisection restarts: log^2)
		l := bits.Len64(cur) + 2
		srv.budget = 8*l + 2*l*l + 16
	}
	ds := &replication.Datasource{BaseURL: "http://planet.test" + c.Prefix, Client: &http.Client{Transport: srv}}
	if c.Loopback {
		hs := httptest.NewServer(srv)
		defer hs.Close()
		ds = &replication.Datasource{BaseURL: hs.URL + c.Prefix, Client: hs.Client()}
	}
	ctx, cancel := context.WithTimeout(context.Background(), 20*time.Second)
	defer cancel()
	lookup := func(q time.Time) (seq uint64, st *replication.State, err error) {
		switch c.Kind {
		case 0:
			var n replication.MinuteSeqNum
			n, st, err = ds.MinuteStateAt(ctx, q)
			seq = uint64(n)
		case 1:
			var n replication.HourSeqNum
			n, st, err = ds.HourStateAt(ctx, q)
			seq = uint64(n)
		case 2:
			var n replication.DaySeqNum
			n, st, err = ds.DayStateAt(ctx, q)
			seq = uint64(n)
		case 3:
			var n replication.ChangesetSeqNum
			n, st, err = ds.ChangesetStateAt(ctx, q)
			seq = uint64(n)
		}
		return
	}
	seq, st, err := lookup(q)
	// classification: a missing file strictly inside the range the search has to cover
	lastNT = false
	for s := uint64(c.First) + 1; s < cur; s++ {
		if _, ok := states[s]; !ok {
			lastNT = true
		}
	}
	if srv.badPath != "" {
		return harness.Failf("C19/request-path", "request %q is not a planet-layout state URL under %s/replication/%s/", srv.badPath, c.Prefix, dirs[c.Kind])
	}
	if srv.refused > 0 {
		// the lookup ran into the refused file: it cannot know that state and
		// must fail (with an error that is not a not-found)
		if err == nil {
			return harness.Failf("C19/refusal-treated-as-missing", "state file %d was answered with status %d during the lookup, which nevertheless succeeded with sequence %d", srv.refuse, c.RefuseStatus, seq)
		}
		return nil
	}
	if srv.n >= srv.budget || errors.Is(err, errBudget) {
		return harness.Failf("C19/too-many-requests", "lookup of t=%ds in %s states %d..%d (%d missing files) issued %d requests without finishing; budget = %d", c.Query, dirs[c.Kind], c.First, cur, missing, srv.n, srv.budget)
	}
	if err != nil {
		return harness.Failf("C19/error", "lookup failed: %v (t=%ds, states %d..%d)", err, c.Query, c.First, cur)
	}
	if st == nil {
		return harness.Failf("C19/nil-state", "nil state without error")
	}
	if seq != want || st.SeqNum != want {
		return harness.Failf("C19/wrong-state", "t=base+%ds in %s states %v (current %d): got sequence %d (state says %d, ts %v), the first available state at or after t is %d", c.Query, dirs[c.Kind], describe(states, cur), cur, seq, st.SeqNum, st.Timestamp.Sub(base), want)
	}
	if !st.Timestamp.Equal(states[want]) {
		return harness.Failf("C19/state-content", "state %d decoded with timestamp %v, file says %v", want, st.Timestamp, states[want])
	}
	if c.QZone%len(qzones) != 0 {
		// the same instant carried in another location: same answer, same requests
		n1 := srv.n
		srv.n = 0
		seq2, st2, err2 := lookup(q.In(qzones[c.QZone%len(qzones)]))
		if err2 != nil || st2 == nil || seq2 != seq || srv.n != n1 {
			return harness.Failf("C19/zone-dependence", "t=base+%ds passed in UTC: sequence %d after %d requests; the same instant in location %v: sequence %d after %d requests (err %v)", c.Query, seq, n1, qzones[c.QZone%len(qzones)], seq2, srv.n, err2)
		}
	}
	return nil
}

func describe(states map[uint64]time.Time, cur uint64) string {
	var sb strings.Builder
	for s := uint64(1); s <= cur; s++ {
		if t, ok := states[s]; ok {
			fmt.Fprintf(&sb, "%d@%ds ", s, int(t.Sub(base).Seconds()))
		}
	}
	return sb.String()
}

func genCase(t *rapid.T) Case {
	c := Case{Kind: rapid.IntRange(0, 3).Draw(t, "kind")}
	switch rapid.IntRange(0, 4).Draw(t, "firstMode") {
	case 4: // far directories, also right behind the budget rule's threshold and at the second path level's boundary
		c.First = rapid.OneOf(rapid.IntRange(2001, 5000), rapid.IntRange(999000, 1001000), rapid.IntRange(999000, 3000000)).Draw(t, "farFirst")
	case 0:
		c.First = 1
	case 1:
		c.First = rapid.IntRange(1, 40).Draw(t, "first")
	case 2:
		c.First = rapid.IntRange(930, 1010).Draw(t, "first") // around the /000/001/ directory boundary
	default:
		c.First = rapid.IntRange(1, 1200).Draw(t, "first")
		if rapid.IntRange(0, 9).Draw(t, "far") == 0 {
			c.First = rapid.IntRange(999000, 3000000).Draw(t, "farFirst") // second path level; only with a late query (below)
		}
	}
	if c.Kind == 3 && c.First < 2 {
		c.First = 2 // changeset files carry name-1 inside; keep that number positive
	}
	n := rapid.IntRange(1, 70).Draw(t, "n")
	if c.First > 2000 && rapid.Bool().Draw(t, "farFew") {
		n = rapid.IntRange(1, 8).Draw(t, "nFew") // few states: a bisection probe often carries exactly the queried timestamp
	}
	pattern := rapid.IntRange(0, 5).Draw(t, "pattern")
	pmiss := []int{0, 1, 3, 5, 8, 9}[pattern]
	run := false
	for i := 0; i < n; i++ {
		c.Gaps = append(c.Gaps, rapid.IntRange(1, 6).Draw(t, "gap")*10)
		var miss bool
		switch {
		case pattern == 3: // runs of gaps
			if rapid.IntRange(0, 4).Draw(t, "toggle") == 0 {
				run = !run
			}
			miss = run
		default:
			miss = rapid.IntRange(0, 9).Draw(t, "miss") < pmiss
		}
		c.Missing = append(c.Missing, miss)
	}
	farExact := false
	total := 0
	for _, g := range c.Gaps {
		total += g
	}
	switch rapid.IntRange(0, 4).Draw(t, "qmode") {
	case 0:
		c.Query = 0 // before everything
	case 1:
		c.Query = total + rapid.IntRange(1, 100).Draw(t, "after")
	case 2: // exactly a state's timestamp
		k := rapid.IntRange(0, n-1).Draw(t, "qk")
		for i := 0; i <= k; i++ {
			c.Query += c.Gaps[i]
		}
	default:
		c.Query = rapid.IntRange(0, total/5+2).Draw(t, "q") * 5
	}
	if c.First > 2000 {
		// Far sequence numbers (second and third path level) are generated for the
		// URL layout. An exact search can only avoid inspecting the whole missing
		// prefix if it finds a state before t by bisection, so these directories
		// have no gaps and the query lies after their second state.
		for i := range c.Missing {
			c.Missing[i] = false
		}
		if n >= 3 && rapid.Bool().Draw(t, "farExact") {
			// exactly the timestamp of the third or a later state (F14: such a probe is the answer)
			farExact = true
			c.Query = 0
			for i, k := 0, rapid.IntRange(2, n-1).Draw(t, "farK"); i <= k; i++ {
				c.Query += c.Gaps[i]
			}
		} else if n >= 2 && c.Query <= c.Gaps[0]+c.Gaps[1] {
			c.Query = c.Gaps[0] + c.Gaps[1] + 1
		} else if n < 2 {
			c.Query = c.Gaps[0] + 1
		}
	}
	c.TimeFmt = rapid.IntRange(0, 1).Draw(t, "timefmt")
	c.Layout = rapid.IntRange(0, 2).Draw(t, "layout")
	c.Prefix = rapid.SampledFrom([]string{"", "", "/mirror/osm"}).Draw(t, "prefix")
	c.QZone = rapid.SampledFrom([]int{0, 0, 1, 2, 3}).Draw(t, "qzone")
	c.QueryMS = rapid.SampledFrom([]int{0, 0, 1, 500, 999}).Draw(t, "queryMS")
	if farExact && c.QueryMS != 1 {
		c.QueryMS = 0
	}
	if rapid.IntRange(0, 5).Draw(t, "refuse?") == 0 {
		c.Refuse = rapid.IntRange(1, 100).Draw(t, "refuse")
		c.RefuseStatus = rapid.SampledFrom([]int{403, 408, 429, 401}).Draw(t, "refuseStatus")
	}
	if c.Kind != 3 && rapid.IntRange(0, 7).Draw(t, "bigLine?") == 0 {
		c.BigLine = rapid.SampledFrom([]int{4000, 65000, 65536, 70000, 200000}).Draw(t, "bigLine")
	}
	if c.Kind == 3 {
		c.OwnNumber = rapid.IntRange(0, 2).Draw(t, "ownNumber") == 0
	}
	return c
}

func TestStateAt(t *testing.T) {
	harness.Run(t, harness.Spec[Case]{
		Name: "state-at", N: 10000,
		Rule:  "replication directories served by an in-process http.RoundTripper: kind in {minute,hour,day,changesets}; sequence range [first,cur] with a missing prefix of any length (first up to 3 000 000, also around the 999/1000 path boundary); strictly increasing irregular timestamps; missing-file patterns none / isolated / runs / dense / sparse; query before all, between, equal to a state's timestamp, after all, 40% of them 1, 500 or 999 ms past a whole second; planet layouts (sequenceNumber=/timestamp= with escaped colons, extra lines in three orders; changeset YAML with last_run/sequence and the off-by-one number - a third of the changeset directories with numbered files that carry their own number, as the planet's files before 2008004 -, two time layouts; one interval directory in eight with a leading txnActiveList line of 4 KB..200 KB), the query instant also passed in a non-UTC location (same answer and same number of requests), optional base-URL path prefix; in one case in six one existing state file is answered with 401/403/408/429 (if the lookup runs into it, it must fail); oracle = first available state with timestamp >= t (cur if later than all), every request path exactly /replication/<dir>/state.{txt,yaml} or /AAA/BBB/CCC.state.txt, returned number = file name, request count <= 8*(ceil(log2(cur))+2)+4*missing+16 (far, gap-free directories: 8*L+2*L^2+16 with L=log2(cur)+2, the missing prefix need not be stepped over there); non-trivial = a missing file strictly inside [first,cur]",
		Gen:   genCase,
		Check: check,
		Classify: func(c Case) (bool, []string) {
			cl := []string{dirs[c.Kind]}
			if lastNT {
				cl = append(cl, "gap-inside-range")
			}
			if c.First > 1 {
				cl = append(cl, "missing-prefix")
			}
			if c.First > 2000 {
				cl = append(cl, "far-directory")
			}
			return lastNT, cl
		},
		Floors: map[string]float64{"gap-inside-range": 0.3, "missing-prefix": 0.4, "far-directory": 0.1},
	})
}

func TestLoopback(t *testing.T) {
	harness.Run(t, harness.Spec[Case]{
		Name: "state-at-loopback", N: 150,
		Rule: "same generator and oracle, served by a real loopback httptest.Server that compresses its responses when the client offers gzip (as Go's transport does by itself)",
		Gen: func(t *rapid.T) Case {
			c := genCase(t)
			c.Loopback = true
			return c
		},
		Check:    check,
		Classify: func(c Case) (bool, []string) { return lastNT, nil },
	})
}
