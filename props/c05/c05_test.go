// Package c05 decides C05: OSM JSON output is osmjson-shaped and round-trips
// up to tag order, for the default and for a user-installed JSON codec.
package c05

import (
	"bytes"
	"encoding/json"
	"fmt"
	"math"
	"strconv"
	"strings"
	"testing"

	"github.com/paulmach/osm"
	"pgregory.net/rapid"

	"verif/internal/harness"
	"verif/internal/osmdoc"
)

func TestMain(m *testing.M) { harness.Main(m, "C05") }

var cmp = osmdoc.Opt{JSON: true}

// ---------------------------------------------------------------- codecs

type countingCodec struct{ marshals, unmarshals int }

func (c *countingCodec) Marshal(v interface{}) ([]byte, error) {
	c.marshals++
	return json.Marshal(v)
}
func (c *countingCodec) Unmarshal(data []byte, v interface{}) error {
	c.unmarshals++
	return json.Unmarshal(data, v)
}

// a codec that legitimately behaves differently: no HTML escaping on output,
// numbers decoded as json.Number into interface{} values
type altCodec struct{ marshals, unmarshals int }

func (c *altCodec) Marshal(v interface{}) ([]byte, error) {
	c.marshals++
	var buf bytes.Buffer
	enc := json.NewEncoder(&buf)
	enc.SetEscapeHTML(false)
	if err := enc.Encode(v); err != nil {
		return nil, err
	}
	return bytes.TrimRight(buf.Bytes(), "\n"), nil
}
func (c *altCodec) Unmarshal(data []byte, v interface{}) error {
	c.unmarshals++
	dec := json.NewDecoder(bytes.NewReader(data))
	dec.UseNumber()
	return dec.Decode(v)
}

type counts interface{ get() (int, int) }

func (c *countingCodec) get() (int, int) { return c.marshals, c.unmarshals }
func (c *altCodec) get() (int, int)      { return c.marshals, c.unmarshals }

// install sets the codec configuration and returns a restore function.
func install(codec int) (restore func(), counter counts) {
	oldM, oldU := osm.CustomJSONMarshaler, osm.CustomJSONUnmarshaler
	restore = func() { osm.CustomJSONMarshaler, osm.CustomJSONUnmarshaler = oldM, oldU }
	switch codec {
	case 1:
		c := &countingCodec{}
		osm.CustomJSONMarshaler, osm.CustomJSONUnmarshaler = c, c
		return restore, c
	case 2:
		c := &altCodec{}
		osm.CustomJSONMarshaler, osm.CustomJSONUnmarshaler = c, c
		return restore, c
	case 3:
		// only the marshalling half is installed
		c := &countingCodec{}
		osm.CustomJSONMarshaler, osm.CustomJSONUnmarshaler = c, nil
		return restore, c
	case 4:
		// only the unmarshalling half is installed
		c := &countingCodec{}
		osm.CustomJSONMarshaler, osm.CustomJSONUnmarshaler = nil, c
		return restore, c
	}
	osm.CustomJSONMarshaler, osm.CustomJSONUnmarshaler = nil, nil
	return restore, nil
}

// ---------------------------------------------------------------- shape

var kinds = map[string]bool{"node": true, "way": true, "relation": true, "changeset": true, "note": true, "user": true}

func isInt(v any) bool {
	f, ok := v.(float64)
	return ok && f == math.Trunc(f)
}

func shape(data []byte) string {
	var top map[string]any
	if err := json.Unmarshal(data, &top); err != nil {
		return fmt.Sprintf("output is not a JSON object: %v", err)
	}
	els, ok := top["elements"].([]any)
	if !ok {
		return fmt.Sprintf("\"elements\" is %T, not an array", top["elements"])
	}
	for i, e := range els {
		obj, ok := e.(map[string]any)
		if !ok {
			return fmt.Sprintf("element %d is %T, not an object", i, e)
		}
		ty, ok := obj["type"].(string)
		if !ok || !kinds[ty] {
			return fmt.Sprintf("element %d has type %v (keys %v)", i, obj["type"], keys(obj))
		}
		if tg, has := obj["tags"]; has {
			m, ok := tg.(map[string]any)
			if !ok {
				return fmt.Sprintf("element %d tags is %T, not an object", i, tg)
			}
			for k, v := range m {
				if _, ok := v.(string); !ok {
					return fmt.Sprintf("element %d tag %q has a %T value", i, k, v)
				}
			}
		}
		if ty == "way" {
			ns, ok := obj["nodes"].([]any)
			if !ok {
				return fmt.Sprintf("way element %d nodes is %T, not an array", i, obj["nodes"])
			}
			for _, n := range ns {
				if !isInt(n) {
					return fmt.Sprintf("way element %d nodes holds %v (%T), not an id", i, n, n)
				}
			}
		}
		if ty == "relation" {
			ms, ok := obj["members"].([]any)
			if !ok {
				return fmt.Sprintf("relation element %d members is %T (null?), not an array", i, obj["members"])
			}
			for _, m := range ms {
				mo, ok := m.(map[string]any)
				if !ok {
					return fmt.Sprintf("relation element %d member is %T", i, m)
				}
				if _, ok := mo["type"].(string); !ok {
					return fmt.Sprintf("relation element %d member without type", i)
				}
				if !isInt(mo["ref"]) {
					return fmt.Sprintf("relation element %d member ref %v", i, mo["ref"])
				}
				if ns, has := mo["nodes"]; has {
					arr, ok := ns.([]any)
					if !ok {
						return fmt.Sprintf("relation element %d member nodes is %T", i, ns)
					}
					for _, n := range arr {
						if !isInt(n) {
							return fmt.Sprintf("relation element %d member nodes holds %v", i, n)
						}
					}
				}
			}
		}
	}
	return ""
}

func keys(m map[string]any) []string {
	var out []string
	for k := range m {
		out = append(out, k)
	}
	return out
}

// ---------------------------------------------------------------- value round trip

type ValueCase struct {
	Doc   *osmdoc.Doc
	Codec int
}

// jsonItems: container order of OSM JSON (bounds are not elements)
func noBounds(items []osmdoc.Item) []osmdoc.Item {
	var out []osmdoc.Item
	for _, it := range items {
		if it.Bounds == nil {
			out = append(out, it)
		}
	}
	return out
}

func roundTrip(c ValueCase, codec int) (string, *harness.Failure) {
	restore, counter := install(codec)
	defer restore()
	v := c.Doc.OSM()
	data, err := json.Marshal(v)
	if err != nil {
		return "", &harness.Failure{Sig: "C05/marshal-error", Msg: fmt.Sprintf("OSM does not marshal (codec %d): %v", codec, err)}
	}
	if d := shape(data); d != "" {
		return "", &harness.Failure{Sig: "C05/shape", Msg: fmt.Sprintf("codec %d: %s\n%s", codec, d, data)}
	}
	// a value that is not addressable marshals like the pointer
	if byValue, err := json.Marshal(*v); err != nil || !bytes.Equal(byValue, data) {
		return "", &harness.Failure{Sig: "C05/by-value-differs", Msg: fmt.Sprintf("codec %d: json.Marshal of the OSM value and of the pointer differ (%v):\n value   %s\n pointer %s", codec, err, byValue, data)}
	}
	var back osm.OSM
	if err := json.Unmarshal(data, &back); err != nil {
		return "", &harness.Failure{Sig: "C05/own-output-rejected", Msg: fmt.Sprintf("codec %d: own output does not unmarshal: %v\n%s", codec, err, data)}
	}
	if back.Version != c.Doc.Version || back.Generator != c.Doc.Generator || back.Copyright != c.Doc.Copyright || back.Attribution != c.Doc.Attribution || back.License != c.Doc.License {
		return "", &harness.Failure{Sig: "C05/top-level-fields", Msg: fmt.Sprintf("codec %d: top-level fields %q %q %q %q %q, want %q %q %q %q %q", codec, back.Version, back.Generator, back.Copyright, back.Attribution, back.License, c.Doc.Version, c.Doc.Generator, c.Doc.Copyright, c.Doc.Attribution, c.Doc.License)}
	}
	if d := cmp.OSMDiff(&back, c.Doc.Items); d != "" {
		return "", &harness.Failure{Sig: "C05/roundtrip", Msg: fmt.Sprintf("codec %d: %s\n%s", codec, d, data)}
	}
	// the bytes handed out by the marshal methods belong to the caller: later
	// marshal calls must not change them
	direct, err := v.MarshalJSON()
	if err != nil {
		return "", &harness.Failure{Sig: "C05/marshal-error", Msg: fmt.Sprintf("OSM.MarshalJSON (codec %d): %v", codec, err)}
	}
	keep := string(direct)
	for _, o := range v.Objects() {
		json.Marshal(o)
		switch x := o.(type) {
		case *osm.Node:
			x.Tags.MarshalJSON()
		case *osm.Way:
			x.Nodes.MarshalJSON()
		case *osm.Relation:
			x.Members.MarshalJSON()
		}
	}
	(&osm.OSM{Version: "0.6", Generator: strings.Repeat("g", len(direct))}).MarshalJSON()
	if string(direct) != keep {
		return "", &harness.Failure{Sig: "C05/marshal-result-modified", Msg: fmt.Sprintf("codec %d: the result of OSM.MarshalJSON changed while other values were marshalled:\n was %s\n now %s", codec, keep, direct)}
	}
	if counter != nil {
		m, u := counter.get()
		if (m == 0 && codec != 4) || (u == 0 && codec != 3) || (m != 0 && codec == 4) || (u != 0 && codec == 3) {
			return "", &harness.Failure{Sig: "C05/custom-codec-not-used", Msg: fmt.Sprintf("custom codec installed but consulted %d times for marshalling and %d times for unmarshalling", m, u)}
		}
	}
	return string(data), nil
}

func checkValue(c ValueCase) error {
	if _, f := roundTrip(c, c.Codec); f != nil {
		return f
	}
	// elements marshalled on their own keep their type as well
	restore, _ := install(c.Codec)
	defer restore()
	for _, it := range c.Doc.Items {
		var v any
		switch {
		case it.Node != nil:
			v = it.Node.OSM()
		case it.Way != nil:
			v = it.Way.OSM()
		case it.Relation != nil:
			v = it.Relation.OSM()
		default:
			continue
		}
		data, err := json.Marshal(v)
		if err != nil {
			return harness.Failf("C05/marshal-error", "%s does not marshal: %v", it.Kind(), err)
		}
		if d := shape([]byte(`{"elements":[` + string(data) + `]}`)); d != "" {
			return harness.Failf("C05/shape", "single %s: %s\n%s", it.Kind(), d, data)
		}
	}
	return nil
}

func TestValueRoundTrip(t *testing.T) {
	harness.Run(t, harness.Spec[ValueCase]{
		Name: "value-roundtrip", N: 4000,
		Rule: "osm.OSM values over every element kind (nodes, ways with annotated way nodes/updates/bounds, relations incl. zero members and nested member nodes, changesets with discussions, notes, users; a third with a top-level Bounds), unique tag keys, under five codec configurations (standard library; counting pass-through codec; an Encoder-without-HTML-escaping / Decoder-with-UseNumber codec; only the marshalling half installed; only the unmarshalling half installed); oracle = output parsed generically has the osmjson shape (elements array, every element typed, tags object, way nodes integer array, members array never null), Unmarshal(Marshal(v)) equals the model up to tag order and way-node/member-node annotations, top-level fields preserved, each installed codec half actually consulted (and only it), the OSM value marshals like the pointer, the bytes returned by a direct OSM.MarshalJSON call are unchanged after every element, tag list, way-node list, member list and a second document have been marshalled; non-trivial = >= 2 element kinds, or a relation without members, or a custom codec",
		Gen: func(t *rapid.T) ValueCase {
			o := osmdoc.GenOpt{UniqueTagKeys: true, NoteFractions: true}
			d := osmdoc.GenDoc(t, o, "nwrcNu")
			if rapid.IntRange(0, 2).Draw(t, "topBounds") == 0 {
				d.Items = append(d.Items, osmdoc.GenItem(t, o, "b"))
			}
			return ValueCase{Doc: d, Codec: rapid.IntRange(0, 4).Draw(t, "codec")}
		},
		Check: checkValue,
		Classify: func(c ValueCase) (bool, []string) {
			ks := map[string]bool{}
			emptyRel, bounds := false, false
			for _, it := range c.Doc.Items {
				ks[it.Kind()] = true
				if it.Relation != nil && len(it.Relation.Members) == 0 {
					emptyRel = true
				}
				if it.Bounds != nil {
					bounds = true
				}
			}
			var cl []string
			if c.Codec != 0 {
				cl = append(cl, "custom-codec")
			}
			if emptyRel {
				cl = append(cl, "relation-without-members")
			}
			if bounds {
				cl = append(cl, "top-level-bounds")
			}
			return len(ks) >= 2 || emptyRel || c.Codec != 0, cl
		},
		Floors: map[string]float64{"custom-codec": 0.4, "top-level-bounds": 0.15},
	})
}

// ---------------------------------------------------------------- codec independence

func TestCodecIndependence(t *testing.T) {
	harness.Run(t, harness.Spec[ValueCase]{
		Name: "codec-independence", N: 1500,
		Rule: "the same value is marshalled and unmarshalled under all three codec configurations; every configuration must satisfy the round-trip oracle (so decoded values agree), and the default and pass-through configurations must produce byte-identical text; non-trivial = every case",
		Gen: func(t *rapid.T) ValueCase {
			return ValueCase{Doc: osmdoc.GenDoc(t, osmdoc.GenOpt{UniqueTagKeys: true, NoteFractions: true}, "nwrcNu")}
		},
		Check: func(c ValueCase) error {
			var texts [3]string
			for codec := 0; codec < 3; codec++ {
				s, f := roundTrip(c, codec)
				if f != nil {
					return f
				}
				texts[codec] = s
			}
			if texts[0] != texts[1] {
				return harness.Failf("C05/codec-dependence", "a pass-through codec changes the output:\n default %s\n custom  %s", texts[0], texts[1])
			}
			return nil
		},
		Classify: func(c ValueCase) (bool, []string) { return true, nil },
	})
}

// ---------------------------------------------------------------- independent osmjson documents

// checkTypeless: elements are decoded independently of their neighbours. A
// document whose k-th element lacks its type is judged only relative to the
// document holding that element alone: if the lone typeless element is
// rejected, it must not become acceptable (taking some kind from elsewhere)
// because other elements precede or follow it.
func checkTypeless(c DocCase, text string) error {
	k := c.Style.NoTypeAt - 1
	solo := &osmdoc.Doc{}
	n := 0
	for _, it := range c.Doc.Items {
		if it.Node == nil && it.Way == nil && it.Relation == nil {
			continue
		}
		if n == k {
			solo.Items = append(solo.Items, it)
		}
		n++
	}
	if len(solo.Items) == 0 {
		return nil
	}
	st := c.Style
	st.NoTypeAt = 1
	soloText := osmdoc.RenderJSON(solo, st)
	var a, b osm.OSM
	errSolo := json.Unmarshal([]byte(soloText), &a)
	errFull := json.Unmarshal([]byte(text), &b)
	if errSolo != nil && errFull == nil {
		return harness.Failf("C05/element-dependence", "element %d has no type; alone it is rejected (%v), inside the document it is accepted as one of %d elements (codec %d)\n%s", k, errSolo, len(b.Elements()), c.Codec, text)
	}
	return nil
}

type DocCase struct {
	Doc   *osmdoc.Doc
	Style osmdoc.JSONStyle
	Codec int
}

func checkDoc(c DocCase) error {
	restore, _ := install(c.Codec)
	defer restore()
	text := osmdoc.RenderJSON(c.Doc, c.Style)
	want := osmdoc.JSONView(c.Doc, c.Style)
	var o osm.OSM
	if c.Style.NoTypeAt > 0 {
		return checkTypeless(c, text)
	}
	if err := json.Unmarshal([]byte(text), &o); err != nil {
		return harness.Failf("C05/osmjson-rejected", "independently written osmjson rejected (codec %d): %v\n%s", c.Codec, err, text)
	}
	if c.Style.VersionKind == 1 && c.Style.VersionNum != "" {
		// a numeric version keeps its value (the library renders it as text)
		wantF, _ := strconv.ParseFloat(c.Style.VersionNum, 64)
		if gotF, err := strconv.ParseFloat(o.Version, 64); err != nil || gotF != wantF {
			return harness.Failf("C05/version-field", "numeric version %s decoded as %q (value %v, err %v)\n%s", c.Style.VersionNum, o.Version, gotF, err, text)
		}
	} else if o.Version != want.Version {
		return harness.Failf("C05/version-field", "version %q, document says %q (kind %d: 0 absent, 1 number, 2 string)\n%s", o.Version, want.Version, c.Style.VersionKind, text)
	}
	if o.Generator != want.Generator || o.Copyright != want.Copyright || o.Attribution != want.Attribution || o.License != want.License {
		return harness.Failf("C05/top-level-fields", "top-level fields %q %q %q %q, want %q %q %q %q", o.Generator, o.Copyright, o.Attribution, o.License, want.Generator, want.Copyright, want.Attribution, want.License)
	}
	if d := cmp.OSMDiff(&o, want.Items); d != "" {
		return harness.Failf("C05/osmjson-decode", "%s\n%s", d, text)
	}
	return nil
}

func TestOSMJSONDocuments(t *testing.T) {
	harness.Run(t, harness.Spec[DocCase]{
		Name: "osmjson-documents", N: 4000,
		Rule: "osmjson documents written by an independent writer from a model: version as number (0.6 or a literal of up to 17 significant digits, exponent form, integers beyond 2^24: its value must survive), as string or absent; generator/copyright/attribution/license present or absent; unknown keys at top level and inside elements; Overpass-style minimal and API-style full elements; key order shuffled, compact or spaced; decoded under the three codec configurations; oracle = decoded elements equal the model (tags up to order), absent top-level fields stay empty strings; one case in eight drops the type key of one element (or writes null): if that element alone is rejected, the whole document must be rejected too (elements are decoded independently of their neighbours); non-trivial = document without version, or with unknown keys, or a custom codec",
		Gen: func(t *rapid.T) DocCase {
			c := DocCase{
				Doc: osmdoc.GenDoc(t, osmdoc.GenOpt{UniqueTagKeys: true, NoAnnotations: true}, "nwr"),
				Style: osmdoc.JSONStyle{Seed: int64(rapid.IntRange(1, 1<<30).Draw(t, "seed")), VersionKind: rapid.IntRange(0, 2).Draw(t, "versionKind"), UnknownKeys: rapid.Bool().Draw(t, "unknown"),
					Minimal: rapid.Bool().Draw(t, "minimal"), Shuffle: rapid.Bool().Draw(t, "shuffle"), Pretty: rapid.Bool().Draw(t, "pretty")},
				Codec: rapid.IntRange(0, 4).Draw(t, "codec"),
			}
			if c.Style.VersionKind == 1 && rapid.Bool().Draw(t, "versionNum?") {
				c.Style.VersionNum = rapid.SampledFrom([]string{"0.61", "1", "2", "0.25", "0.7", "0.123456789", "20240131", "0.60000001", "16777217", "6e-1", "0.6000000000000001", "1234567.890625"}).Draw(t, "versionNum")
			}
			if n := osmdoc.CountElements(c.Doc); n > 0 && rapid.IntRange(0, 7).Draw(t, "typeless?") == 0 {
				c.Style.NoTypeAt = rapid.IntRange(1, n).Draw(t, "noTypeAt")
				c.Style.NoTypeNull = rapid.Bool().Draw(t, "noTypeNull")
			}
			return c
		},
		Check: checkDoc,
		Classify: func(c DocCase) (bool, []string) {
			var cl []string
			if c.Style.VersionKind == 0 {
				cl = append(cl, "no-version")
			}
			if c.Style.UnknownKeys {
				cl = append(cl, "unknown-keys")
			}
			if c.Codec != 0 {
				cl = append(cl, "custom-codec")
			}
			if c.Style.NoTypeAt > 1 {
				cl = append(cl, "typeless-after-typed")
			}
			if c.Style.VersionNum != "" {
				cl = append(cl, "numeric-version-digits")
			}
			return len(cl) > 0, cl
		},
		Describe: func(c DocCase) any {
			return map[string]any{"style": c.Style, "codec": c.Codec, "json": osmdoc.RenderJSON(c.Doc, c.Style)}
		},
		Floors: map[string]float64{"no-version": 0.1, "custom-codec": 0.4},
	})
}
