// Package c11 decides C11: annotation reconstructs, for any time, the child
// versions that were current. The oracle is the generator's ground-truth
// timeline (internal/histgen), never a re-implementation of the matcher.
package c11

import (
	"context"
	"errors"
	"fmt"
	"sort"
	"testing"
	"time"

	"github.com/paulmach/osm"
	"github.com/paulmach/osm/annotate"
	"pgregory.net/rapid"

	"verif/internal/harness"
	"verif/internal/histgen"
)

func TestMain(m *testing.M) { harness.Main(m, "C11") }

type Case = histgen.Case

type expErr struct {
	kind string // history, visible, deleted
	id   osm.FeatureID
}

const inf = 1 << 30

// child annotation as carried by a parent's child reference
type ann struct {
	ver      int
	cs       int64
	lat, lon float64
}

func childAnn(p any, j int) ann {
	switch x := p.(type) {
	case *osm.Way:
		n := x.Nodes[j]
		return ann{n.Version, int64(n.ChangesetID), n.Lat, n.Lon}
	case *osm.Relation:
		m := x.Members[j]
		return ann{m.Version, int64(m.ChangesetID), m.Lat, m.Lon}
	}
	panic("parent type")
}

func updatesOf(p any) osm.Updates {
	switch x := p.(type) {
	case *osm.Way:
		return x.Updates
	case *osm.Relation:
		return x.Updates
	}
	panic("parent type")
}

// cloneParent makes the copy the updates are applied on: a struct copy with
// its own child list. The update list is shared with the original, which must
// not notice (checked after the time travel).
func cloneParent(p any) any {
	switch x := p.(type) {
	case *osm.Way:
		c := *x
		c.Nodes = append(osm.WayNodes(nil), x.Nodes...)
		return &c
	case *osm.Relation:
		c := *x
		c.Members = append(osm.Members(nil), x.Members...)
		return &c
	}
	panic("parent type")
}

func applyUpTo(p any, t time.Time) error {
	switch x := p.(type) {
	case *osm.Way:
		return x.ApplyUpdatesUpTo(t)
	case *osm.Relation:
		return x.ApplyUpdatesUpTo(t)
	}
	panic("parent type")
}

func want(c *Case, ci, k int) ann {
	v := c.Children[ci].Versions[k]
	return ann{v.Ver, v.CS, v.Lat, v.Lon}
}

func check(c Case) error {
	ds := c.BuildDS()
	var opts []annotate.Option
	opts = append(opts, annotate.Threshold(time.Duration(c.Eps)*c.Unit()))
	if c.IgnoreInconsistency {
		opts = append(opts, annotate.IgnoreInconsistency(true))
	}
	if c.IgnoreMissing {
		opts = append(opts, annotate.IgnoreMissingChildren(true))
	}
	if c.Reject != nil {
		rej := map[osm.FeatureID]bool{}
		for ci, r := range c.Reject {
			if r {
				rej[c.FeatureID(ci)] = true
			}
		}
		opts = append(opts, annotate.ChildFilter(func(id osm.FeatureID) bool { return !rej[id] }))
	}
	var parents []any
	var err error
	if c.ParentIsWay {
		ways := c.BuildWays()
		for _, w := range ways {
			parents = append(parents, w)
		}
		if c.AsChildren {
			err = annotate.Ways(context.Background(), ways, histgen.AsChildrenDS{DS: ds}, opts...)
		} else {
			err = annotate.Ways(context.Background(), ways, ds, opts...)
		}
	} else {
		rels := c.BuildRelations()
		for _, r := range rels {
			parents = append(parents, r)
		}
		if c.AsChildren {
			err = annotate.Relations(context.Background(), rels, histgen.AsChildrenDS{DS: ds}, opts...)
		} else {
			err = annotate.Relations(context.Background(), rels, ds, opts...)
		}
	}

	// An injected data source failure must surface as an error. If the call
	// returns something else the case is judged as usual: a child whose history
	// exists is expected to be annotated, so a swallowed failure shows up below.
	if errors.Is(err, histgen.ErrBackend) {
		if ds.Fail == nil {
			return harness.Failf("C11/unexpected-error", "backend error without an injected fault: %v", err)
		}
		return nil
	}

	// ---- expectations from the ground-truth timeline
	var mustErr, mayErr []expErr
	type pair struct {
		judged   bool // annotation and updates are judged
		unannot  bool // must stay unannotated (ignored problem)
		state    int
		noTravel bool // a deletion inside the window was ignored: later states not judged
	}
	pairs := make([][]pair, len(c.Parents))
	skipped := func(pi, j int) bool { // rejected by the filter and already annotated: nothing is claimed
		p := c.Parents[pi]
		return c.Reject != nil && j < len(p.PreAnn) && p.PreAnn[j] && c.Reject[p.Refs[j]]
	}
	next := func(pi int) int {
		if pi+1 < len(c.Parents) {
			n := c.Parents[pi+1].At
			if c.Regime == histgen.Pre {
				n -= c.Eps
			}
			return n
		}
		return inf
	}
	for pi, p := range c.Parents {
		pairs[pi] = make([]pair, len(p.Refs))
		if !p.Visible {
			continue
		}
		for j, ci := range p.Refs {
			if skipped(pi, j) {
				continue
			}
			ch := c.Children[ci]
			if ch.Missing {
				if c.IgnoreMissing {
					pairs[pi][j] = pair{unannot: true}
				} else {
					mustErr = append(mustErr, expErr{"history", c.FeatureID(ci)})
				}
				continue
			}
			s := c.State(ci, p.At)
			if s < 0 || !ch.Versions[s].Visible {
				if c.IgnoreInconsistency {
					pairs[pi][j] = pair{unannot: true}
				} else {
					mustErr = append(mustErr, expErr{"visible", c.FeatureID(ci)})
				}
				continue
			}
			pr := pair{judged: true, state: s}
			for k := s + 1; k < len(ch.Versions); k++ {
				e := c.Eff(ci, k)
				if !ch.Versions[k].Visible {
					if e < next(pi) {
						if c.IgnoreInconsistency {
							pr.noTravel = true
						} else {
							mustErr = append(mustErr, expErr{"deleted", c.FeatureID(ci)})
						}
					} else if e == next(pi) {
						mayErr = append(mayErr, expErr{"deleted", c.FeatureID(ci)})
					}
				}
			}
			pairs[pi][j] = pr
		}
	}
	matches := func(list []expErr) bool {
		for _, e := range list {
			switch x := err.(type) {
			case *annotate.NoHistoryError:
				if e.kind == "history" && x.ID == e.id {
					return true
				}
			case *annotate.NoVisibleChildError:
				if e.kind == "visible" && x.ID == e.id {
					return true
				}
			default:
				if e.kind == "deleted" {
					return true
				}
			}
		}
		return false
	}
	if len(mustErr) > 0 {
		if err == nil {
			return harness.Failf("C11/missing-error", "inconsistent input (%v) annotated without error (ignoreInconsistency=%v ignoreMissing=%v)", mustErr, c.IgnoreInconsistency, c.IgnoreMissing)
		}
		if !matches(mustErr) && !matches(mayErr) {
			return harness.Failf("C11/wrong-error", "error %T %v does not name any of the inconsistencies %v", err, err, mustErr)
		}
		return nil
	}
	if err != nil {
		if matches(mayErr) {
			return nil
		}
		return harness.Failf("C11/unexpected-error", "consistent history (regime %d, eps %ds) failed: %T %v", c.Regime, c.Eps, err, err)
	}

	// ---- annotations, updates, time travel
	for pi, p := range c.Parents {
		par := parents[pi]
		ups := updatesOf(par)
		if !p.Visible {
			if len(ups) != 0 {
				return harness.Failf("C11/deleted-parent-annotated", "deleted parent version %d received %d updates", p.Ver, len(ups))
			}
			continue
		}
		allJudged := true
		for j, ci := range p.Refs {
			pr := pairs[pi][j]
			got := childAnn(par, j)
			if skipped(pi, j) {
				allJudged = false
				continue
			}
			if pr.unannot {
				allJudged = false
				pre := j < len(p.PreAnn) && p.PreAnn[j]
				if !pre && got.ver != 0 {
					return harness.Failf("C11/annotated-despite-problem", "parent v%d child %d (%v) has no usable state at the parent's time but carries version %d", p.Ver, j, c.FeatureID(ci), got.ver)
				}
				continue
			}
			if w := want(&c, ci, pr.state); got != w {
				return harness.Failf("C11/wrong-child-version", "parent v%d (t=%d) child ref %d (%v): annotated %+v, current at that time was %+v (regime %d eps %d, history %+v)", p.Ver, p.At, j, c.FeatureID(ci), got, w, c.Regime, c.Eps, c.Children[ci].Versions)
			}
		}
		// updates: exactly the later versions before the next parent (ties with it optional)
		var must, may, have []string
		key := func(j, ver, at int) string { return fmt.Sprintf("idx%d/v%d/t%d", j, ver, at) }
		for j, ci := range p.Refs {
			pr := pairs[pi][j]
			if !pr.judged {
				continue
			}
			ch := c.Children[ci]
			for k := pr.state + 1; k < len(ch.Versions); k++ {
				if !ch.Versions[k].Visible {
					continue
				}
				e := c.Eff(ci, k)
				if e <= p.At {
					continue // forward-grouped into this parent version or an older tie: not an update
				}
				if e < next(pi) {
					must = append(must, key(j, ch.Versions[k].Ver, ch.Versions[k].At))
				} else if e == next(pi) && c.Regime == histgen.Commit {
					may = append(may, key(j, ch.Versions[k].Ver, ch.Versions[k].At))
				}
			}
		}
		judgedIdx := map[int]bool{}
		for j := range p.Refs {
			if pairs[pi][j].judged {
				judgedIdx[j] = true
			}
		}
		for _, u := range ups {
			if u.Index < 0 || u.Index >= len(p.Refs) {
				return harness.Failf("C11/update-index", "update %+v has an index outside the parent's %d children", u, len(p.Refs))
			}
			if pairs[pi][u.Index].unannot {
				// the problem with this child was ignored: whatever is listed must still be a
				// later version (never one from before the parent version) of an existing history
				ci := p.Refs[u.Index]
				if c.Children[ci].Missing {
					return harness.Failf("C11/update-invented", "update %+v for a child without history", u)
				}
				ok := false
				for k, v := range c.Children[ci].Versions {
					if v.Ver == u.Version && v.Visible && c.Eff(ci, k) >= p.At && c.Eff(ci, k) <= next(pi) { // ties with the parent's own second are not judged
						ok = true
					}
				}
				if !ok {
					return harness.Failf("C11/stale-update", "parent v%d (t=%d, next %d): update %+v for child %v (not visible at the parent's time, inconsistency ignored) is not a visible version created at or after the parent version's time and before the next one; history %+v", p.Ver, p.At, next(pi), u, c.FeatureID(ci), c.Children[ci].Versions)
				}
				continue
			}
			if !judgedIdx[u.Index] {
				continue
			}
			at := int(u.Timestamp.Sub(c.Base()) / c.Unit())
			if !u.Timestamp.Equal(c.Time(at)) {
				return harness.Failf("C11/update-timestamp", "update %+v is not stamped with a commit time / timestamp of the timeline", u)
			}
			have = append(have, key(u.Index, u.Version, at))
			// content
			ci := p.Refs[u.Index]
			found := false
			for k, v := range c.Children[ci].Versions {
				if v.Ver == u.Version {
					found = true
					if int64(u.ChangesetID) != v.CS || u.Lat != v.Lat || u.Lon != v.Lon {
						return harness.Failf("C11/update-content", "update %+v does not carry changeset/location of %v v%d (%+v)", u, c.FeatureID(ci), v.Ver, v)
					}
					if c.Children[ci].Kind == 1 && k > 0 {
						if wantRev := v.Rev != c.Children[ci].Versions[k-1].Rev; u.Reverse != wantRev {
							return harness.Failf("C11/update-reverse", "update %+v: reverse=%v, way version reversed its direction=%v", u, u.Reverse, wantRev)
						}
					}
				}
			}
			if !found {
				return harness.Failf("C11/update-invented", "update %+v names a version that does not exist", u)
			}
		}
		sort.Strings(must)
		sort.Strings(may)
		sort.Strings(have)
		mayCount := map[string]int{}
		for _, k := range may {
			mayCount[k]++
		}
		mi := 0
		for _, h := range have {
			if mi < len(must) && must[mi] == h {
				mi++
				continue
			}
			if mayCount[h] > 0 {
				mayCount[h]--
				continue
			}
			return harness.Failf("C11/extra-update", "parent v%d (t=%d, next at %d): update %s is not a later child version before the next parent version; expected %v (optional ties %v), got %v", p.Ver, p.At, next(pi), h, must, may, have)
		}
		if mi != len(must) {
			return harness.Failf("C11/missing-update", "parent v%d (t=%d, next at %d): update %s missing; expected %v, got %v", p.Ver, p.At, next(pi), must[mi], must, have)
		}
		// time travel
		if !allJudged {
			continue
		}
		times := map[int]bool{p.At: true}
		for _, ci := range p.Refs {
			for k := range c.Children[ci].Versions {
				if e := c.Eff(ci, k); e >= p.At {
					times[e] = true
					times[e+1] = true
					times[c.Children[ci].Versions[k].At] = true
				}
			}
		}
		var order []int
		for tt := range times {
			order = append(order, tt)
		}
		sort.Ints(order)
		upsBefore := fmt.Sprint(updatesOf(par))
		for _, tt := range order {
			if tt < p.At || tt >= next(pi) {
				continue
			}
			for _, half := range []time.Duration{0, c.Unit() / 2} {
				cp := cloneParent(par)
				if err := applyUpTo(cp, c.Time(tt).Add(half)); err != nil {
					return harness.Failf("C11/apply-error", "ApplyUpdatesUpTo failed on annotated parent: %v", err)
				}
				for j, ci := range p.Refs {
					if pairs[pi][j].noTravel {
						continue
					}
					s := c.State(ci, tt)
					if c.Regime == histgen.Pre {
						// updates carry the child's timestamp: a version is applied once its own
						// timestamp is reached (forward-grouped versions are already in the parent)
						s = preState(&c, ci, p.At, tt)
					}
					if got, w := childAnn(cp, j), want(&c, ci, s); got != w {
						return harness.Failf("C11/time-travel", "parent v%d (t=%d, next %d) updated to t=%d%s: child ref %d (%v) is %+v, current at that time was %+v (regime %d eps %d history %+v updates %+v)", p.Ver, p.At, next(pi), tt, map[bool]string{true: ".5", false: ""}[half > 0], j, c.FeatureID(ci), got, w, c.Regime, c.Eps, c.Children[ci].Versions, updatesOf(par))
					}
				}
			}
		}
		if now := fmt.Sprint(updatesOf(par)); now != upsBefore {
			return harness.Failf("C11/apply-on-copy-changes-original", "parent v%d: applying updates on struct copies (own child list, shared update list) changed the annotated parent's update list:\n before %s\n after  %s", p.Ver, upsBefore, now)
		}
	}
	return nil
}

// preState: the version current at time t for a parent version at time T in the
// pre-commit regime: latest version whose effective time is <= T, or whose own
// timestamp is <= t.
func preState(c *Case, ci, T, t int) int {
	r := -1
	for k, v := range c.Children[ci].Versions {
		if c.Eff(ci, k) <= T || (v.At <= t && c.Eff(ci, k) == v.At) {
			r = k
		}
	}
	return r
}

func classify(c Case) (bool, []string) {
	var cl []string
	nt := false
	anyErr := false
	for _, ch := range c.Children {
		if ch.Missing {
			anyErr = true
		}
		for _, v := range ch.Versions {
			if !v.Visible {
				anyErr = true
			}
		}
	}
	if c.FailChild > 0 && !c.Children[c.FailChild-1].Missing {
		cl = append(cl, "datasource-fault")
	}
	tie, fwd, repeated, delParent := false, false, false, false
	for pi, p := range c.Parents {
		if !p.Visible {
			delParent = true
		}
		seen := map[int]bool{}
		for _, ci := range p.Refs {
			if seen[ci] {
				repeated = true
			}
			seen[ci] = true
			for k, v := range c.Children[ci].Versions {
				if v.At == p.At {
					tie = true
				}
				if c.Regime == histgen.Pre && c.Eff(ci, k) != v.At {
					fwd = true
				}
				if pi+1 < len(c.Parents) && v.At > p.At && v.At < c.Parents[pi+1].At {
					nt = true
				}
			}
		}
	}
	if len(c.Parents) < 2 {
		nt = false
	}
	if tie {
		cl = append(cl, "same-second-tie")
	}
	if fwd {
		cl = append(cl, "forward-grouped")
	}
	if repeated {
		cl = append(cl, "repeated-child")
	}
	if delParent {
		cl = append(cl, "deleted-parent")
	}
	if anyErr {
		cl = append(cl, "has-deletion-or-missing")
	}
	if c.Reject != nil {
		cl = append(cl, "child-filter")
	}
	if c.ParentIsWay {
		cl = append(cl, "ways")
	} else {
		cl = append(cl, "relations")
	}
	return nt || anyErr, cl
}

func describe(c Case) any {
	return map[string]any{"regime": []string{"commit", "pre-commit"}[c.Regime], "eps_s": c.Eps, "parent_is_way": c.ParentIsWay, "parents": c.Parents, "children": c.Children,
		"ignore_inconsistency": c.IgnoreInconsistency, "ignore_missing": c.IgnoreMissing, "as_children": c.AsChildren, "reject": c.Reject, "late_base": c.LateBase}
}

func TestCommitRegime(t *testing.T) {
	harness.Run(t, harness.Spec[Case]{
		Name: "commit-regime", N: 12000,
		Rule:     "ground-truth timelines with commit times: 1..5 parent versions (ways with node children, or route relations with node/way/relation members) with non-decreasing commit instants, ties, version gaps, deleted parent versions; 1..5 children with 1..8 versions each, frequent same-instant clusters, time unit 1 s or - half of the cases - 250/100 ms so that instants differ within one wall-clock second, deletions/undeletions, missing histories, children repeated within a parent and entering/leaving it; histories handed over in shuffled order, plain or ...AsChildren data sources; options IgnoreInconsistency, IgnoreMissingChildren, every threshold, ChildFilter with pre-annotated references; one case in eight injects a data source failure (not a not-found error) for one child: the call must return it, or else the result is judged as usual; oracle from the timeline: annotated version/changeset/location == state(child, T_i); updates == later visible versions with commit time in (T_i, T_{i+1}) (versions tying with T_{i+1} optional), stamped with commit times, way-member Reverse flags; ApplyUpdatesUpTo(t) on a copy == state(child, t) for every t on the timeline and half-second off it; deleted parents untouched; typed errors naming an inconsistent child; non-trivial = a child edit strictly between two parent versions, or an error case",
		Gen:      func(t *rapid.T) Case { return histgen.Gen(t, histgen.Opts{Regime: histgen.Commit, Faults: true}) },
		Check:    check,
		Classify: classify,
		Describe: describe,
		Floors:   map[string]float64{"same-second-tie": 0.15, "repeated-child": 0.15, "deleted-parent": 0.08, "child-filter": 0.1},
	})
}

func TestPreCommitRegime(t *testing.T) {
	harness.Run(t, harness.Spec[Case]{
		Name: "pre-commit-regime", N: 8000,
		Rule:     "timelines without commit info (2010 timestamps, or - one case in three - 2015 timestamps still lacking commit info): threshold eps in {1,2,5,60,1800,7200} s, parent versions spaced > 2*eps, per (parent, child) at most one child version inside [T-eps, T+eps]: backward (any changeset), forward in the parent's changeset (belongs to the parent version), or after in another changeset (stays an update); all other versions outside every window; oracle: annotated state = latest version with effective time <= T_i, updates = versions with effective time in (T_i, T_{i+1}-eps) stamped with their timestamps, time travel for every t in that interval; non-trivial = a child edit between two parent versions",
		Gen:      func(t *rapid.T) Case { return histgen.Gen(t, histgen.Opts{Regime: histgen.Pre, Faults: true}) },
		Check:    check,
		Classify: classify,
		Describe: describe,
		Floors:   map[string]float64{"forward-grouped": 0.15},
	})
}

// ---------------------------------------------------------------- batch independence

func annotateParents(c *Case, only int) ([]any, error) {
	ds := c.BuildDS()
	opts := []annotate.Option{annotate.Threshold(time.Duration(c.Eps) * c.Unit())}
	var parents []any
	var err error
	if c.ParentIsWay {
		ways := c.BuildWays()
		if only >= 0 {
			ways = ways[only : only+1]
		}
		for _, w := range ways {
			parents = append(parents, w)
		}
		err = annotate.Ways(context.Background(), ways, ds, opts...)
	} else {
		rels := c.BuildRelations()
		if only >= 0 {
			rels = rels[only : only+1]
		}
		for _, r := range rels {
			parents = append(parents, r)
		}
		err = annotate.Relations(context.Background(), rels, ds, opts...)
	}
	return parents, err
}

// Which child version a parent version references is a function of that parent
// version and the child histories, so it must not depend on which other parent
// versions are annotated in the same call (the update lists do, by design).
func checkBatchIndependence(c Case) error {
	all, err := annotateParents(&c, -1)
	if err != nil {
		return nil // an inconsistency somewhere in the batch: nothing to compare
	}
	for pi, p := range c.Parents {
		alone, err := annotateParents(&c, pi)
		if err != nil {
			return harness.Failf("C11/batch-dependence", "parent v%d annotates fine together with the other versions but fails alone: %v", p.Ver, err)
		}
		for j := range p.Refs {
			if a, b := childAnn(all[pi], j), childAnn(alone[0], j); a != b {
				return harness.Failf("C11/batch-dependence", "parent v%d (t=%d) child ref %d (%v): annotated %+v when all %d versions are annotated together, %+v when annotated alone (eps %ds, parents %+v, history %+v)", p.Ver, p.At, j, c.FeatureID(p.Refs[j]), a, len(c.Parents), b, c.Eps, c.Parents, c.Children[p.Refs[j]].Versions)
			}
		}
	}
	return nil
}

func TestBatchIndependence(t *testing.T) {
	harness.Run(t, harness.Spec[Case]{
		Name: "batch-independence", N: 6000,
		Rule: "pre-commit histories WITHOUT window discipline (several child versions inside one threshold window, parent versions closer than the threshold, any changesets) and commit-regime histories; metamorphic oracle only: the child version/changeset/location annotated on parent version i is the same whether all versions are annotated in one call or version i alone; non-trivial = >= 2 parent versions and a child with >= 2 versions inside one parent's threshold window (or any commit-regime case with >= 2 parents)",
		Gen: func(t *rapid.T) Case {
			if rapid.IntRange(0, 3).Draw(t, "commit") == 0 {
				c := histgen.Gen(t, histgen.Opts{Regime: histgen.Commit, NoErrors: true})
				c.Reject = nil
				for i := range c.Parents {
					for j := range c.Parents[i].PreAnn {
						c.Parents[i].PreAnn[j] = false
					}
				}
				return c
			}
			return histgen.Gen(t, histgen.Opts{Regime: histgen.Pre, Free: true})
		},
		Check: checkBatchIndependence,
		Classify: func(c Case) (bool, []string) {
			crowded := false
			for _, p := range c.Parents {
				for _, ci := range p.Refs {
					n := 0
					for _, v := range c.Children[ci].Versions {
						if v.At >= p.At-c.Eps && v.At <= p.At+c.Eps {
							n++
						}
					}
					if n >= 2 {
						crowded = true
					}
				}
			}
			var cl []string
			if crowded {
				cl = append(cl, "several-versions-in-one-window")
			}
			return len(c.Parents) >= 2 && (crowded || c.Regime == histgen.Commit), cl
		},
		Describe: describe,
		Floors:   map[string]float64{"several-versions-in-one-window": 0.3},
	})
}
