#!/bin/sh
# Builds the driver from files on disk only (offline).
set -e
cd /verif
export GOFLAGS=-mod=mod GOPROXY=off GOSUMDB=off GOTOOLCHAIN=local
mkdir -p bin evidence replays .work
go build -o bin/vcheck ./cmd/vcheck
echo "setup ok"
