#!/bin/sh
# usage: tools/eval_mutants.sh <ID> [tier]  -- runs the check of <ID> against every seeded change in /tmp/mut/<ID>/_out or /verif/seeded/<ID>*
id="$1"; tier="${2:-quick}"
for d in /tmp/mut/$id/_out/m* /verif/seeded/$id-*; do
  [ -f "$d/patch.diff" ] || continue
  out=$(/verif/tools/try_mutant.sh "$d/patch.diff" "$id" "$tier" 2>&1)
  code=$(echo "$out" | sed -n 's/^exit=//p')
  sig=$(echo "$out" | sed -n 's/^ *signature=\([^ ]*\).*/\1/p' | head -1)
  echo "$id $(basename $d): exit=$code $sig"
done
