#!/bin/bash
# quick tier of every property at several seeds on the unchanged tree: every line must be OK
cd /verif
for seed in "$@"; do
  for i in 01 02 03 04 05 06 07 08 09 10 11 12 13 14 15 16 17 18 19 20; do
    out=$(VERIF_SEED=$seed ./check C$i quick 2>&1 | grep -v "^KNOWN" | head -4 | tr '\n' ' ' | cut -c1-400)
    echo "seed=$seed $out"
  done
done
