#!/usr/bin/env python3
"""Writes seeded/<ID>-mN/meta.json from the table below and seeded/matrix.tsv."""
import json, os, csv
NEEDS = {
 "C01-m1": ("osmpbf/decode_data.go: cached PrimitiveBlock reset no longer clears DateGranularity", "a block with non-default date_granularity followed, on the same decoder goroutine (block k and k+procs), by a block that omits the field"),
 "C01-m2": ("osmpbf/decode.go: decoder goroutine skips sending the result of a block that decoded to zero objects", "a valid data block without elements before the end of the file and procs >= 2 (round-robin desynchronises)"),
 "C02-m1": ("osmpbf/decode.go: empty block results are offered with a non-blocking send and dropped when the output channel is full", "procs >= 2, a block whose elements are all filtered/skipped, and that decoder's output channel full at that moment (procs > 10 or a stalled consumer)"),
 "C02-m2": ("osmpbf/decode.go: headerless-start branch loses the round-robin step after pushing the first data block", "a stream that starts with an OSMData block (resumed scan), procs >= 2 and at least 2 blocks"),
 "C03-m1": ("osmxml/scanner.go: unknown elements are skipped wholesale, but action/old/new are missing from the container list", "streaming an augmented diff (objects only inside <action>/<old>/<new>)"),
 "C03-m2": ("diff.go: create-action element routed through OSM.Append, which packs the id", "a create action whose element id is negative or >= 2^40 (panics inside xml.Unmarshal)"),
 "C04-m1": ("change.go: attribution attribute guarded by c.Copyright != \"\"", "a Change with Attribution set and Copyright empty"),
 "C04-m2": ("osmxml/scanner.go: only the first <bounds> of a stream is returned", "two or more bounds in one stream (bounds in several osmChange blocks, or in old and new of a diff action)"),
 "C05-m1": ("osm.go findType: byte-scan fast path takes the first \"type\":\" in the raw element, ignoring nesting", "compact osmjson whose element has a nested type before its own (sorted keys: members before type)"),
 "C05-m2": ("tag.go Tags.MarshalJSON: hand-written object quoted with strconv.AppendQuote (Go escapes, not JSON escapes)", "a tag key/value with a control character (\\v, \\a, ESC, DEL) or a non-printable rune above U+FFFF"),
 "C06-m1": ("osmpbf/decode.go getData: zlib stream read through io.LimitReader(raw_size)", "a zlib blob whose declared raw_size is smaller than the real size and ends on a protobuf field boundary"),
 "C06-m2": ("osmpbf/decode_data.go scanDenseNodes: missing-ids check uses the cached iterator (dec.ids == nil) instead of a per-group flag", "a dense group without ids decoded by a decoder goroutine that already decoded an intact dense group (procs=1, or block k and k+procs)"),
 "C07-m1": ("osmpbf/decode.go serializer: context error not recorded when cancelled while waiting for a decoded block", "cancel from another goroutine while Scan is blocked waiting for input with no decoded block ready (stalled reader)"),
 "C07-m2": ("osmxml/scanner.go: ctx checked once per Scan call instead of once per token", "cancellation during a running Scan followed by a long stretch of input without OSM objects"),
 "C08-m1": ("osmpbf/decode_data.go: rejected way/relation keeps its Tags slice and scanTags reuses it", "a filter rejecting a tagged way/relation immediately followed by an accepted tagless one in the same group"),
 "C08-m2": ("osmpbf/decode.go: blocks that decode to zero objects send no result", "procs >= 2 and a block emptied by a skip flag or filter, decoders dropping unequal numbers of blocks"),
 "C09-m1": ("osmpbf/decode.go: restarted scan drops the round-robin step", "a scanner started on a data block (resume), procs >= 2, >= 2 blocks after the resume point"),
 "C09-m2": ("osmpbf/decode.go: first block of a restarted scan reports its end offset instead of 0", "a chained resume: second scan stopped inside its first block, third scan started at base + reported offset"),
 "C10-m1": ("object.go/element.go/feature.go Ref(): shift-based decoding sign-extends bit 55", "a reference in [2^39, 2^40)"),
 "C10-m2": ("ParseObjectID/ParseElementID: version parsed with ParseInt(..., 10, 16) (signed)", "text with a version in [2^15, 2^16)"),
 "C11-m1": ("annotate/internal/core/compute.go: start index reset to 0 when the next version is not visible", "IgnoreInconsistency(true) and a child deleted at the parent's time that had earlier visible versions"),
 "C11-m2": ("annotate/shared/child.go FromNode: Committed = n.CommittedAt() (falls back to Timestamp)", "histories without commit info but timestamps on/after 2012-09-12, node stamped just after the parent in the same changeset"),
 "C12-m1": ("update.go SortByIndex: timestamps compared with != (location pointer) before the version tie-break", "same instant carried in different time zone locations (Z vs +00:00) and a parent with > 12 updates"),
 "C12-m2": ("annotate/internal/core/compute.go: SortByIndex skipped unless a batch starts at a lower index than the tail", "a child occurring at two or more positions of the parent with >= 2 minor updates (interleaved batches), map order dependent"),
 "C13-m1": ("annotate/change.go findPreviousRelation: loop breaks at the first version >= own", "unsorted relation history with a same-or-later version before the true predecessor"),
 "C13-m2": ("annotate/change.go addUpdate: Visible assignment hoisted above the create fallback", "deleted element + IgnoreMissingChildren(true) + missing history or no earlier version"),
 "C14-m1": ("annotate/order.go walk: member de-duplication keyed on the bare ref before the type filter", "a node/way member and a relation member sharing a numeric id, the non-relation first, child not emitted yet"),
 "C14-m2": ("annotate/order.go walk: relation marked visited on entry instead of on emit", "a cycle entered from a relation not on it (1->2->3->2), or a self-loop first reached as a child"),
 "C15-m1": ("way.go LineStringAt: skips a later-stored update with an older timestamp per node", "two updates for one node index, both due, stored newest first (shuffled list)"),
 "C15-m2": ("relation.go applyUpdate: orientation flip rewritten as CCW<->CW toggle", "a Reverse update on a member whose Orientation is 0"),
 "C16-m1": ("internal/mputil/join.go Join: 'shift up' removal loop starts at foundAt-1", ">= 5 same-role way members listed so the continuing piece sits at index 1..len/2-1 of the pending list"),
 "C16-m2": ("osmgeojson/build_polygon.go polygonContains: (yi >= y) != (yj > y)", "multi-outer relation with a hole vertex at exactly the latitude of an outer vertex east of it"),
 "C17-m1": ("osmgeojson/convert.go: membership index not built at all under NoRelationMembership", "that option plus an untagged way node that is also a relation member"),
 "C17-m2": ("osmgeojson/convert.go: per-way line-string cache shares slices that joining reverses in place", "a tagged way that is flipped while joining a route and still emitted as its own feature"),
 "C18-m1": ("polygon.go: hand-written binary search never compares the last sorted value", "a rule key carrying the value that sorts last in its list (e.g. barrier=wall, natural=tree_row)"),
 "C18-m2": ("polygon.go: blacklist arm returns the lookup result, ending the rule loop", "a blacklisted value on one key plus a qualifying key later in the rule table"),
 "C19-m1": ("replication/search.go: returns the lower-bound state directly / drops the 'below' bookkeeping", "state file 1 missing and a sparse directory where bisection never probes the qualifying state"),
 "C19-m2": ("replication/changesets.go + search.go: changeset search uses the raw current sequence (off by one)", "ChangesetStateAt with a query later than the third-newest state"),
 "C20-m1": ("osmapi/datasource.go: catch-all status check changed to >= 300", "a 2xx status other than 200 (201, 202, 203, 206)"),
 "C20-m2": ("osmapi/options.go At(): time formatted with RFC3339 in its own zone", "At(t) with a non-UTC time value"),
 "C01-r2m1": ("osmpbf/decode_data.go: timestamp conversion through a lazily cached per-decoder date unit that the per-block reset list misses", "two blocks with different effective date_granularity on the same decoder (block k and k+procs)"),
 "C01-r2m2": ("osmpbf/decode_data.go extractDenseNodes: block offsets folded into the delta accumulators with integer division", "a lat/lon offset that is not a multiple of the granularity"),
 "C01-r2m3": ("osmpbf/decode.go: decoder goroutines drop empty results", "procs >= 2 and a valid data block without elements before the end"),
 "C02-r2m1": ("osmpbf/decode.go: decoder goroutine skips sending empty results", "procs >= 2 and a fully skipped/filtered block with data after it"),
 "C02-r2m2": ("decode_data.go + decode.go: object queue only reallocated if non-empty, and truncated after the result is built (two sites)", "more blocks than decoders and a consumer slower than the decoders (data race, later blocks overwrite delivered ones)"),
 "C02-r2m3": ("osmpbf/decode.go readBlobHeaderSize: single Read instead of io.ReadFull", "an input reader whose piece boundary falls inside a 4-byte size prefix"),
 "C03-r2m1": ("osm.go: (*OSM).UnmarshalXML clears root attributes and Bounds before decoding into the receiver", "a repeated osmChange action where an earlier block has bounds and a later one of the same action has none"),
 "C03-r2m2": ("osmxml/scanner.go: unknown elements skipped whole; old/new missing from the wrapper set", "scanning an augmented diff with modify/delete actions"),
 "C03-r2m3": ("tag.go: (*Tag).UnmarshalXML takes Attr[0]/Attr[1] positionally when there are exactly two", "a tag written as v=... k=..."),
 "C05-r2m1": ("osm.go UnmarshalJSON: elements routed through OSM.Append (packed id type bits)", "an element id that is negative or >= 2^40"),
 "C05-r2m2": ("tag.go Tags.MarshalJSON: hand-written with strconv.AppendQuote", "tag text with control bytes, DEL, invalid UTF-8 or unprintable runes above U+FFFF"),
 "C05-r2m3": ("osm.go Objects(): early return for zero elements before bounds are counted vs MarshalJSON's elements[1:]", "an OSM holding only Bounds"),
 "C06-r2m1": ("osmpbf/decode.go readBlobHeaderSize: size prefix converted with int32()", "a size prefix >= 2^31 (negative after conversion, slice bounds panic)"),
 "C06-r2m2": ("osmpbf/decode_data.go: cached string table no longer reset", "a block without string table decoded by a goroutine that decoded another block before (block index >= procs)"),
 "C06-r2m3": ("decode_data.go Decode returns the partial queue with the error + decode.go Next delivers objects before a stored block error (two sites)", "damage surfacing as an ordinary error in the second or later group of a block"),
 "C07-r2m1": ("osmpbf/decode.go: decoder returns when its send loses to ctx.Done + reader's send loses its ctx select (two sites)", "Close/cancel mid-file on a file with more blocks than the pipeline buffers (Close hangs)"),
 "C07-r2m2": ("osmpbf/scanner.go Close: early return when not started", "Close before any Header/Scan, then Scan (decoder starts with a live context, reads on, goroutines leak)"),
 "C07-r2m3": ("osmxml/scanner.go: ctx check hoisted out of the token loop", "cancellation during a running Scan over a long stretch without objects"),
 "C08-r2m1": ("osmpbf/decode_data.go: scratch relation kept on the decoder across groups, stored on reject (two sites)", "a reject followed by an accept in one relation group plus a later relation group on the same decoder"),
 "C08-r2m2": ("osmpbf/decode.go: blocks decoding to zero kept objects send nothing", "procs >= 2 and a block emptied by skip flags or filters, count of empty blocks not a multiple of procs"),
 "C08-r2m3": ("osmpbf/decode_data.go scanWays: rejected way's node buffer re-sliced instead of reallocated", "a rejected way with locations followed by an accepted way without locations that fits the retained capacity"),
 "C09-r2m1": ("osmpbf/decode.go: round-robin index not advanced after queueing the first block of a headerless stream", "resume at a data block with procs >= 2 and >= 2 blocks remaining"),
 "C09-r2m2": ("decode.go + decode_data.go: visible flag honoured only if the header lists HistoricalInformation (two sites)", "a resumed scanner (never sees a header) on a history file with visible=false elements"),
 "C09-r2m3": ("osmpbf/decode.go: restart block queued with dec.bytesRead instead of 0", "a scan resumed and then stopped and resumed again from the offset the resumed scanner reports"),
 "C11-r2m1": ("annotate/internal/core/types.go FindVisible: offset <= eps became offset < eps", "a child version written in exactly the parent's second by a different changeset (timestamp regime)"),
 "C11-r2m2": ("types.go + compute.go: FindVisible resumes its scan from the child found for the previous parent version (two sites)", "timestamp regime, >= 2 parent versions in one call, next version within the threshold after the current child, a later same-changeset child version farther away"),
 "C11-r2m3": ("compute.go mapChildLocs: ChildFilter decision cached per child from its first occurrence", "ChildFilter set, an earlier version already annotated, a new un-annotated version, a child the filter rejects"),
 "C16-r2m1": ("internal/mputil/join.go Join: forwards shift loop overwrites pending segments", ">= 7 ways of one role with the continuing piece at index >= 2 in the first half of the pending list"),
 "C16-r2m2": ("osmgeojson/build_polygon.go polygonContains: (yi >= y) != (yj > y)", "hole vertex at exactly the latitude of a vertex of another outer ring east of it, that outer listed after the hole's own"),
 "C16-r2m3": ("join.go joins annotated segments head-to-tail only + build_polygon.go no longer pre-reverses CW outers / CCW inners (two sites)", "members with orientation annotations whose pieces do not all run the same way round"),
 "C17-r2m1": ("osmgeojson/convert.go: membership pre-pass skipped entirely under NoRelationMembership", "that option plus an untagged way node that is a relation member"),
 "C17-r2m2": ("convert.go: route member lines stashed and reused by wayToFeature (two sites) while Join reverses them in place", "a tagged route member whose neighbours run in the opposite direction"),
 "C17-r2m3": ("convert.go wayToFeature: orb.Ring(ls) instead of toRing(ls)", "an area way whose closing node is missing from the data"),
 "C19-r2m1": ("replication/search.go: timestamp.After(lower) became !timestamp.Before(lower)", "a query time exactly equal to the lower bound state's timestamp"),
 "C19-r2m2": ("changesets.go + search.go: the changeset off-by-one correction moved out of the path the search uses (two sites)", "changeset replication, query in the newest interval or after all states"),
 "C19-r2m3": ("search.go findInRange: loop bound sID >= below and below = split.SeqNum (two edits)", "a run of missing files directly above an existing state with the query inside the hole (endless requests)"),
 "C04-r2m1": ("osm.go + change.go: root attributes written through a positional helper; Change pre-filters empty values so positions shift", "an osmChange whose set root attributes have a gap (e.g. version and license but no generator)"),
 "C04-r2m2": ("osmxml/scanner.go: <bounds> decoded into a reused Scanner field and returned by address", "two or more top-level bounds in one stream and a caller that keeps scanned objects"),
 "C04-r2m3": ("diff.go Action.MarshalXML: old/new written with marshalInnerElementsXML (nodes, ways, relations only)", "a Diff modify/delete action whose Old/New carries Bounds, Changesets, Notes or Users"),
 "C10-r2m1": ("feature.go: Type.mask() helper covers all 7 kinds and Type.FeatureID trusts mask() != 0 (two sites)", "a real but non-element kind (changeset, note, user, bounds) given to the feature/element parser"),
 "C10-r2m2": ("object.go/element.go: version parsed with a signed 16-bit ParseInt", "text with a version >= 32768"),
 "C10-r2m3": ("constructors mask the ref with a 39-bit constant", "a reference >= 2^39 (collisions, wrong order, wrong Ref)"),
 "C12-r2m1": ("update.go: SortByTimestamp gains an index tie-break and SortByIndex delegates to it after the index compare (two sites): version tie-break lost", "versions of one child sharing a timestamp in a parent with more than 12 updates"),
 "C12-r2m2": ("annotate/internal/core/compute.go: SortByIndex only when more than one child contributed updates", "exactly one updating child sitting at two or more positions of the parent with >= 2 minor versions"),
 "C12-r2m3": ("annotate/relation.go: polygon relations with a Reverse update are re-sorted by timestamp only", "annotate.Relations on a multipolygon/boundary relation with a reversed way member and another member's minor version out of index order"),
 "C13-r2m1": ("annotate/change.go findPreviousWay: scan breaks at the first version >= own", "an unsorted way history with a later/equal version stored before the true predecessor"),
 "C13-r2m2": ("annotate/change.go: 'no earlier version' folded into a helper returning a typed nil pointer as error (two sites)", "IgnoreMissingChildren(true) plus an existing history without a version below the element's own"),
 "C13-r2m3": ("annotate/change.go addUpdate: Visible assignment hoisted above the create fallback", "deleted element, previous version missing, IgnoreMissingChildren(true)"),
 "C14-r2m1": ("annotate/order.go walk: 'seen' set keyed by the bare ref, filled before the type check", "a non-relation member and a relation member with the same numeric id, parent requested before the child"),
 "C14-r2m2": ("annotate/order.go: out channel buffered to len(ids) and the final select replaced by a plain send (two sites)", "request list smaller than the reachable set and Close/cancel before the iteration is drained (Close deadlocks)"),
 "C14-r2m3": ("annotate/order.go: relation marked visited on entry", "a cycle not through the first requested relation, the cycle-closing relation requested later"),
 "C15-r2m1": ("way.go LineStringAt: fast path looks only at the first stored update", "first stored update later than t while a later-stored one is due (index-sorted or shuffled lists)"),
 "C15-r2m2": ("update.go UpTo sorts its result by time + way.go ApplyUpdatesUpTo applies Updates.UpTo(t) (two sites)", "a shuffled list with one child's later update stored first, or > 12 updates with same-second versions"),
 "C15-r2m3": ("relation.go ApplyUpdatesUpTo: boundary instant compared with == on time.Time", "t exactly an update's instant but in another zone/representation"),
 "C18-r2m1": ("polygon.go: len(w.Nodes) <= 3 became < 3", "a closed way with exactly three refs (A-B-A) and area tags"),
 "C18-r2m2": ("polygon.go: 'no' skip replaced by appending \"no\" to every non-whitelist list after the sort (two sites)", "natural=no, man_made=no, aeroway=no, natural=tree_row, aeroway=taxiway"),
 "C18-r2m3": ("polygon.go: single pass over the tags in storage order with area handled inline", "area=no together with a qualifying rule key stored before it"),
 "C20-r2m1": ("osmapi/datasource.go: Client and Limiter both taken from the fallback datasource when Client is nil (two sites)", "a custom Datasource with a Limiter and a nil Client"),
 "C20-r2m2": ("osmapi/options.go At(): time.RFC3339 in the value's own zone", "At(t) with a non-UTC time"),
 "C20-r2m3": ("osmapi/way.go Ways: single-id lists delegated to Way", "Ways with exactly one id (wrong path; 0 or >=2 ways in the response become an error)"),
 "C01-r3m1": ("osmpbf way decoding: node locations (Way fields 9/10) resolved against refs only when refs precede them on the wire", "a way with embedded node locations written with field 8 (refs) after fields 9/10 - no proto.Marshal-based encoder does that"),
 "C01-r3m2": ("osmpbf/decode.go: a Read returning (n>0, io.EOF) loses the final block", "a reader that reports io.EOF together with the last bytes (iotest.DataErrReader, HTTP bodies with Content-Length, compress readers)"),
 "C01-r3m3": ("osmpbf/decode.go: blob size limit lowered to 16 MiB", "one fileblock with 16 MiB < datasize < 32 MiB"),
 "C02-r3m1": ("osmpbf/decode_data.go: date_granularity of the previous block kept when a block omits the field", "a block with explicit date_granularity != 1000 and a later block without the field on the same decoder goroutine (distance a multiple of procs)"),
 "C02-r3m2": ("osmpbf/decode_data.go: object queue grown past 8000 entries is reused for the decoder's next block", "a block with > 8000 objects, a later block on the same decoder goroutine, and a consumer still inside the earlier block (slow consumer)"),
 "C02-r3m3": ("osmpbf/decode.go: round-robin index shadowed in the reader loop after a headerless start", "a stream starting at a data block (resume), procs >= 2 and >= 3 blocks"),
 "C06-r3m1": ("osmpbf/decode_data.go: a block without string table reuses the cached table of the decoder's previous block", "a data block whose stringtable field is missing while its objects reference strings, decoded by a goroutine that already decoded an intact block (procs=1, or distance a multiple of procs)"),
 "C06-r3m2": ("osmpbf/scanner.go: the error of a failed Header() is forgotten and the following Scan restarts the decoder", "Header() called before the first Scan on input damaged in its first fileblock, then Scan"),
 "C06-r3m3": ("osmpbf/decode.go getData: inflate capped at exactly the declared raw_size", "a zlib blob whose declared raw_size is smaller than the real size and equals the offset of a top-level field boundary of the inflated message"),
 "C07-r3m1": ("osmxml/scanner.go: context checked once per Scan call", "cancellation arriving during a Scan call (from Read or another goroutine) while the input holds a long run of non-object tokens"),
 "C07-r3m2": ("osmpbf/decode.go: decoder goroutines exit as soon as the context is done instead of draining their input", "a stream starting at a data block, procs > 10 (unbuffered inputs) and a cancel/Close issued before the first Scan: Close never returns"),
 "C07-r3m3": ("osmpbf/scanner.go Err: s.err == io.EOF became errors.Is(s.err, io.EOF)", "an underlying reader failing mid-block with an error that wraps io.EOF"),
 "C08-r3m1": ("osmpbf/decode_data.go: SkipNodes also skips reading granularity/lat_offset/lon_offset", "SkipNodes=true, a way with embedded node locations, and a block with non-default granularity or offsets"),
 "C08-r3m2": ("osmpbf/decode_data.go: WayNodes memory of a rejected way reused without clearing", "FilterWay rejects a way with embedded locations, the next accepted way of the same group has none and no more nodes than the rejected one"),
 "C08-r3m3": ("osmpbf/decode_data.go: queue pre-sizing for unfiltered dense groups drops the block's earlier elements", "no node filter/skip, a block with > 8000 elements in which a dense group follows other kept elements"),
 "C11-r3m1": ("annotate/internal/core/types.go FindVisible: commit times compared at whole-second granularity", "commit regime with sub-second commit instants and a child committed in the same wall-clock second as, but after, the parent version"),
 "C11-r3m2": ("annotate/internal/core/compute.go: IgnoreMissingChildren checked before NotFound(err), swallowing every data source error", "IgnoreMissingChildren(true) and a data source failing with a non-not-found error for a child whose history exists (fault injection)"),
 "C11-r3m3": ("update.go SortByIndex tie-break compares time.Time with != instead of Equal", "a parent version with > 12 updates, two versions of one child at the same instant, the two time values in different Locations"),
 "C16-r3m1": ("internal/mputil Orientation: shoelace sum no longer translated to the ring's first vertex", "a ring a few 1e-7 degree steps across located far from lon=0/lat=0, with orientation annotations"),
 "C16-r3m2": ("internal/mputil/join.go: way ends joined with a 1e-7 tolerance instead of exact equality", "two distinct way end vertices within one coordinate step (1e-7 degrees) of each other"),
 "C16-r3m3": ("osmgeojson/convert.go wayToLineString: way treated as fully annotated when its first node carries a location", "a member way whose first node is annotated while a later node's location is only available as a node object"),
 "C17-r3m1": ("osmgeojson/convert.go: node/way identity routed through the packed FeatureID", "node or way ids that are negative or >= 2^40 (outside the packed-id domain C10 names; the unchanged converter's membership index already collides there, so the check does not generate them)"),
 "C17-r3m2": ("osmgeojson/convert.go: membership of relation-type members looked up through the way map", "a feature-producing relation that is itself a member of another relation, with no way of the same numeric id in the data"),
 "C17-r3m3": ("osmgeojson/convert.go hasInterestingTags: nil check on the ignore map removed", "an element whose only interesting tags have the empty string as value"),
 "C03-r3m1": ("osmxml/scanner.go New(): decoder made lenient (Strict=false, AutoClose=HTMLAutoClose, Entity=HTMLEntity)", "an element named like an HTML void element (img in a user, unknown meta/link) written as a start/end pair with whitespace or a comment in between - scanner only"),
 "C03-r3m2": ("diff.go Action.UnmarshalXML: create-action element stored through OSM.Append (packed id)", "an augmented diff whose create action has a negative id or one >= 2^40"),
 "C03-r3m3": ("osm.go: new OSM.UnmarshalXML drops notes with no id, status, creation date or comments (whole-document decode only)", "a note carrying only position/URLs - scanner and whole-document decode disagree"),
 "C04-r3m1": ("note.go: Date.MarshalXML gets a pointer receiver", "an osm.Note marshalled by value (not addressable): the date falls back to RFC 3339 text the decoder rejects"),
 "C04-r3m2": ("osm.go marshalInnerXML: all-zero top-level Bounds no longer written", "a non-nil Bounds whose four values are exactly 0"),
 "C04-r3m3": ("osmxml/scanner.go: bounds after the first object of the stream are skipped", "an osmChange/diff in which a bounds element follows an object (later block, old/new)"),
 "C05-r3m1": ("osm.go UnmarshalJSON: version read with a type switch over string/float64 only", "a custom unmarshaler that decodes numbers as json.Number and a document whose version is a JSON number"),
 "C05-r3m2": ("json.go marshalJSON: default path encodes into a sync.Pool buffer and returns its bytes", "bytes taken directly from a MarshalJSON method and used after another marshal call"),
 "C05-r3m3": ("osm.go OSM.MarshalJSON: all-zero Bounds treated as absent while Objects() still lists it", "Bounds != nil with all four values zero"),
 "C09-r3m1": ("osmpbf/decode.go Start: first data block of a resumed stream queued before the decoder goroutines exist", "a resumed (headerless) stream and procs >= 11 (unbuffered queues): Start blocks forever"),
 "C09-r3m2": ("osmpbf/decode_data.go: per-block reset clears LatOffset twice, never LonOffset", "a block with lon_offset followed on the same decoder by a block omitting it; the resumed scanner then returns other coordinates than the full scan"),
 "C09-r3m3": ("osmpbf/scanner.go Header(): 'no header block' error stored in the sticky s.err", "Header() called on a resumed scanner before or during the scan"),
 "C10-r3m1": ("object.go ParseObjectID: version placeholder removed with TrimSuffix", "text of the exact form kind/ref:version:-"),
 "C10-r3m2": ("feature.go: refMask widened by one nibble", "the bounds object id (its kind marker lies inside the widened mask): Ref() != 0"),
 "C10-r3m3": ("element.go ParseElementID: kind validation through the shared objectID switch plus an upper-bound filter", "text naming the bounds kind (bounds/0, bounds/12:3) is accepted"),
 "C12-r3m1": ("update.go SortByIndex: timestamps compared with != instead of Equal", "> 12 updates on a parent and two versions of one child at the same instant in different Locations"),
 "C12-r3m2": ("annotate/internal/core/compute.go: final sort skipped when the call handled a single child", "exactly one distinct child in the call, at >= 2 indexes of a parent, with >= 2 minor versions"),
 "C12-r3m3": ("annotate/relation.go SetChild: way cache filled for every member, keyed by the member's numeric ref", "a multipolygon/boundary relation with an outer/inner way member and a node or relation member of the same numeric id (map order decides)"),
 "C13-r3m1": ("annotate/change.go: ignoreMissing also set by IgnoreInconsistency", "IgnoreInconsistency(true) without IgnoreMissingChildren and an element without predecessor"),
 "C13-r3m2": ("annotate/change.go findPreviousWay: empty history with nil error returns (nil, nil)", "a way history that is present but empty"),
 "C13-r3m3": ("annotate/change.go checkErr: every error dropped when IgnoreMissingChildren is set", "IgnoreMissingChildren(true) and a data source failing with a non-not-found error (fault injection)"),
 "C14-r3m1": ("annotate/order.go walk: a full ancestor path (cap 100) is treated as a loop", "an acyclic chain nested deeper than 100 below a requested id"),
 "C14-r3m2": ("annotate/order.go walk: member id taken through the 40-bit FeatureID", "relation members with ids >= 2^40 or negative"),
 "C14-r3m3": ("annotate/order.go: wg.Add(1) moved into the walker goroutine", "Close before the first Next and before the goroutine was scheduled: Close returns while the goroutine still performs lookups"),
 "C15-r3m1": ("way.go applyUpdate: index check in 32-bit unsigned arithmetic", "an out-of-range index whose low 32 bits are a valid index (2^32, 2^32+1): panic instead of the typed error"),
 "C15-r3m2": ("relation.go ApplyUpdatesUpTo: an update equal to its predecessor is skipped", "two identical neighbouring updates on a relation (pending ones are lost, a double reversal counts once)"),
 "C15-r3m3": ("way.go ApplyUpdatesUpTo: pending updates filtered in place", "a struct copy of the way sharing the update list (or an error after an applied update): the original's updates are rewritten"),
 "C18-r3m1": ("polygon.go: closedness decided by comparing whole way-node entries", "first and last way node with the same id but different annotations"),
 "C18-r3m2": ("polygon.go: ways with more tags than rules are pre-filtered to rule keys, hiding the area tag", "a closed way with >= 27 tags and an area tag"),
 "C18-r3m3": ("polygon.go: 'no' matched case-insensitively", "values No, NO, nO on area or a rule key"),
 "C19-r3m1": ("replication/search.go: exact-hit shortcut compares time values with == before the chain", "state 1 missing, query instant equal to the lower bound's timestamp, query value not in UTC: every missing file below is requested"),
 "C19-r3m2": ("replication/interval.go: state file read with bufio.Scanner, Err unchecked", "a state file with a line of 64 KiB or more before sequenceNumber/timestamp"),
 "C19-r3m3": ("replication/changesets.go: sequence always incremented instead of taken from the file name", "numbered changeset state files that carry their own number (planet files before 2008004)"),
 "C20-r3m1": ("osmapi/datasource.go NewDatasource copies *DefaultDatasource", "DefaultDatasource.BaseURL/Limiter changed before NewDatasource and not overridden on the new datasource"),
 "C20-r3m2": ("osmapi/datasource.go getFromAPI: client-side 'URI too long' above 8190 bytes", "a multi-fetch whose URL exceeds 8190 bytes (about 740 ten-digit ids)"),
 "C20-r3m3": ("osmapi/changeset.go: base URL used as part of a printf format", "a base URL containing % (percent-escaped path segment) with the changeset endpoints"),
 "C01-r4m1": ("osmpbf/decode_data.go scanWays: the refs column always allocates way.Nodes", "a way with embedded locations whose lat/lon columns are serialized before refs"),
 "C01-r4m2": ("osmpbf/decode_data.go scanTags: way/relation tags cut from a shared chunk without capping the capacity", "the caller appends to the Tags of a decoded way: the following ways/relations of that decoder goroutine change"),
 "C01-r4m3": ("osmpbf/decode.go: 32 MB blob buffer from a package-level sync.Pool, returned when Start returns", "two scanners alive at once (one waiting for input while the other starts and reads)"),
 "C03-r4m1": ("osmxml/scanner.go: way node lists copied into a per-scanner slab and returned with spare capacity", "the caller appends to the Nodes of a scanned way while more ways are (or were) scanned"),
 "C03-r4m2": ("tag.go: new Tag.UnmarshalXML unescapes k/v a second time with html.UnescapeString", "tag text that reads as an entity after XML decoding (&amp;amp;, &amp;lt;, &amp;#38;, &amp;copy without semicolon)"),
 "C03-r4m3": ("diff.go Action.UnmarshalXML: children with a non-empty namespace skipped", "an augmented diff whose root declares a default namespace"),
 "C04-r4m1": ("note.go: Date.MarshalXML gets a pointer receiver", "a Note marshalled by value"),
 "C04-r4m2": ("diff.go Action.UnmarshalXML: create-action elements collected through OSM.Append", "a diff create action with a negative id or one >= 2^40 (panic in whole-document decode)"),
 "C04-r4m3": ("osmxml/scanner.go: user names cached by uid", "one scan with two elements of the same non-zero uid and different user strings"),
 "C05-r4m1": ("json.go marshalJSON: pooled buffer returned to the caller", "bytes of a direct MarshalJSON call used after another marshal"),
 "C05-r4m2": ("note.go Date.MarshalJSON: RFC3339 without fractions", "note dates with a fraction of a second"),
 "C05-r4m3": ("osm.go findType: fast path taking the first \"type\":\" of the raw element", "compact osmjson where a nested type (member, or a tag named type with an element kind as value) precedes the element's own type"),
 "C06-r4m1": ("osmpbf/decode.go getData: inflate straight into the reused buffer with io.ReadFull", "a zlib blob inflating to zero bytes with raw_size > 0 on a decoder that already decoded a block: clean end of scan"),
 "C06-r4m2": ("osmpbf/decode.go readBlobHeader: BlobHeader reused and unmarshalled with Merge", "a BlobHeader lacking type or datasize after a data block (datasize: blob as long as the previous one)"),
 "C06-r4m3": ("osmpbf/decode.go: one type check accepting OSMHeader and OSMData at every position", "a block after the first whose type is OSMHeader"),
 "C07-r4m1": ("osmxml/scanner.go Scan: context checked on entry and after start elements only", "cancellation while Scan skips a long run of comments/processing instructions (no element at all)"),
 "C07-r4m2": ("osmpbf/scanner.go Err: errors.Is(s.err, io.EOF)", "a reader failing mid-file with an error wrapping io.EOF"),
 "C07-r4m3": ("osmpbf/decode.go: decoder goroutines return on ctx.Done instead of draining their input", "headerless input, procs > 10 and a stop before the scan starts: Close hangs"),
 "C08-r4m1": ("osmpbf/decode_data.go extractDenseNodes: the next scratch node gets the unused tail of an accepted node's tag buffer", "FilterNode rejects a node with many tags, accepts following ones with fewer, and the caller appends to a returned node's Tags"),
 "C08-r4m2": ("osmpbf/decode.go Start: headerless first block sent in a select; the round-robin step after it is lost", "a stream starting at a data block, procs >= 2, >= 3 blocks (also without any filter)"),
 "C08-r4m3": ("osmpbf/decode_data.go scanPrimitiveGroup: the first field of a skipped type ends the walk over its group", "a PrimitiveGroup holding more than one element type - which the format forbids ('A PrimitiveGroup MUST NOT contain different types of objects'); not generated"),
 "C09-r4m1": ("osmpbf/scanner.go Header(): 'no header block' error stored in the sticky s.err", "Header() called on a resumed scanner"),
 "C09-r4m2": ("osmpbf/decode.go: blob buffer from a package-level sync.Pool, returned when Start returns", "a resumed scanner started while the earlier scanner is still open with a read in flight"),
 "C09-r4m3": ("osmpbf/decode_data.go: per-block reset no longer clears DateGranularity", "a block with date_granularity before one without it on the same decoder; the resumed scan (fresh decoders) then differs from the uninterrupted one"),
 "C10-r4m1": ("element.go Elements.Sort: sorts ids and writes elements back through an id->element map", "two distinct objects with the same (type, id, version) in one slice: one is duplicated, the other lost"),
 "C10-r4m2": ("object.go ParseObjectID: trailing ':-' stripped before splitting", "text kind/ref:version:-"),
 "C10-r4m3": ("feature.go Type.FeatureID: non-feature kinds rejected by an upper bound only", "the kind bounds (sorts below node): bounds/0 accepted by ParseFeatureID/ParseElementID"),
 "C11-r4m1": ("annotate/way.go, relation.go: parents without computed updates are skipped when writing results back", "re-annotation of a parent that already carries Updates when the new result is empty"),
 "C11-r4m2": ("annotate/options.go: options applied to a package-level default value", "a call with an ignore option or threshold followed by a call without it"),
 "C11-r4m3": ("way.go/relation.go ApplyUpdatesUpTo: pending updates filtered in place", "struct copies of an annotated parent sharing the update list (time travel on copies)"),
 "C12-r4m1": ("update.go SortByIndex: timestamps compared through UnixNano", "an update stamped outside 1677..2262 (year 2300, 9999)"),
 "C12-r4m2": ("annotate/internal/core/compute.go: final sort by index only (stable)", "a child whose update timestamps are not monotonic in the version (clock skew)"),
 "C12-r4m3": ("annotate/way.go, relation.go: results appended into the parent's old Updates[:0]", "already annotated parent versions whose Updates share a backing array"),
 "C13-r4m1": ("annotate/change.go findPrevious*: older versions filtered in place on the history slice", "an unsorted history consulted twice (the element modified and deleted in one change)"),
 "C13-r4m2": ("annotate/change.go: previous version found by comparing ElementIDs (16-bit versions)", "versions >= 65536"),
 "C13-r4m3": ("annotate/options.go: IgnoreMissingChildren(false) no longer clears the flag", "IgnoreMissingChildren(true) followed by IgnoreMissingChildren(false) in one call"),
 "C14-r4m1": ("annotate/order.go walk: member id through the 40-bit FeatureID", "relation members with negative ids or ids >= 2^40"),
 "C14-r4m2": ("annotate/order.go: start path hoisted into a package-level slice shared by all orderings", "two orderings alive at once over overlapping id ranges"),
 "C14-r4m3": ("annotate/order.go: WaitGroup replaced by a one-token channel", "a second Close on the same ordering never returns"),
 "C15-r4m1": ("way.go ApplyUpdatesUpTo: pending updates compacted in place", "a struct copy sharing the update list, or an error after entries were moved"),
 "C15-r4m2": ("relation.go ApplyUpdatesUpTo: times compared at whole-second granularity", "an update stamped later than t within the same second"),
 "C15-r4m3": ("way.go LineStringAt: early return when t is before the way's own commit time", "a way whose own Timestamp/Committed is later than t with updates at or before t"),
 "C16-r4m1": ("osmgeojson: member-way geometry cached per Convert call and reversed in place", "two relations sharing a way in one data set, the later one with orientation annotations"),
 "C16-r4m2": ("internal/mputil Ring: the reversed check also reads members without annotation", "a ring whose members are only partly annotated"),
 "C16-r4m3": ("annotate/relation.go Relations: one way lookup shared by all relation versions of the call", "two relation versions referencing the same way at versions of opposite direction, annotated in one call"),
 "C17-r4m1": ("osmgeojson/convert.go: per-conversion line cache returns a slice that route building reverses in place", "a way a route must turn around that is used again (own tagged feature or second relation)"),
 "C17-r4m2": ("osmgeojson/convert.go addMetaProperties: Timestamp.Unix() > 0 instead of !IsZero()", "a timestamp at or before 1970-01-01"),
 "C17-r4m3": ("osmgeojson/convert.go: untagged features share one package-level tags map", "the caller writes into the tags map of one untagged feature of a result"),
 "C18-r4m1": ("way.go/polygon.go: Polygon() memoises the tag decision in an unexported Way field", "the same Way value (or a struct copy) asked again after its Tags changed"),
 "C18-r4m2": ("polygon.go: 'no' compared with EqualFold", "values No, NO, nO"),
 "C18-r4m3": ("polygon.go: early exit through Tags.AnyInteresting()", "rule keys or area listed in the exported osm.UninterestingTags map"),
 "C19-r4m1": ("replication/search.go: query time truncated to whole seconds", "a query a fraction of a second after a state's timestamp (minute/hour/day)"),
 "C19-r4m2": ("replication: per-Datasource state cache keyed by the bare sequence number", "one Datasource used for lookups of two kinds (or twice)"),
 "C19-r4m3": ("replication: state requests set Accept-Encoding: gzip themselves", "the real transport against a server that compresses on request"),
 "C20-r4m1": ("osmapi/datasource.go getFromAPI: a non-200 response with Retry-After is retried once", "a non-200 status carrying a Retry-After header: two requests, the second bypassing the limiter"),
 "C20-r4m2": ("osmapi/options.go At: t.Round(time.Second)", "an instant with a fraction of half a second or more"),
 "C20-r4m3": ("osmapi/datasource.go getFromAPI: the fallback client is stored in the Datasource", "a datasource without client called once, the default client replaced, called again"),
 "C01-r7m1": ("osmpbf/decode.go Start: headerless-start branch no longer advances the round-robin index after pushing the first data block", "a stream that starts at an OSMData block, procs >= 2 and at least two data blocks (same change as C02-r7m1 / C08-r7m2; caught by the quick checks of C02, C08 and C09 - C01 quantifies over files with their header block)"),
 "C01-r7m2": ("osmpbf/decode.go decodeOSMHeader: replication timestamp read through the getter and tested != 0", "header field 32 present with value exactly 0"),
 "C02-r7m1": ("osmpbf/decode.go Start: headerless-start branch no longer advances the round-robin index", "headerless stream, procs >= 2, at least 3 data blocks"),
 "C02-r7m2": ("osmpbf/decode.go: decoder goroutine continues instead of sending an empty result", "procs >= 2 and a block that yields no objects (skipped type, all filtered, empty block) followed by more blocks"),
 "C03-r7m1": ("osmxml/scanner.go Scan: unknown wrappers are skipped whole; old/new missing from the list of known wrappers", "stream-scanning an augmented diff with modify/delete actions"),
 "C03-r7m2": ("diff.go Action.UnmarshalXML: token loop breaks at the first end element", "an <action> with an unknown child element (e.g. <meta/>) in any position"),
 "C04-r7m1": ("osmxml/scanner.go: bounds are only returned until the first non-bounds object was returned", "an osmChange or diff where a later block carries bounds after an earlier block held an element"),
 "C04-r7m2": ("osm.go marshalInnerXML + bounds.go: container bounds written only if not 'empty' (min == max on both axes)", "container-level Bounds with coinciding corners (point bounds, all-zero bounds)"),
 "C05-r7m1": ("osm.go UnmarshalJSON/findType: the type probe struct is hoisted out of the loop and reused", "an element without type (or type null) after a typed element: decoded as the preceding kind instead of rejected"),
 "C05-r7m2": ("osm.go UnmarshalJSON: numeric version formatted with bitSize 32", "a numeric top-level version needing about 8 or more significant digits"),
 "C06-r7m1": ("osmpbf/decode.go readBlobHeaderSize: size >= max became size > max", "a size prefix of exactly 65536 followed by a well-formed 65536-byte BlobHeader (indexdata padding)"),
 "C06-r7m2": ("osmpbf/decode_data.go extractDenseNodes: k <= 0 ends a node's tags", "a negative reference in key position of the dense keys_vals column"),
 "C07-r7m1": ("osmpbf/decode.go Start: wg.Add(n+2) moved before the header checks that can still fail", "a first fileblock that is readable but rejected (unsupported required feature, unknown type), then Close"),
 "C07-r7m2": ("osmxml/scanner.go Scan: ctx.Err() checked once per Scan instead of once per token", "cancellation during a Scan followed by a long run of foreign elements / comments"),
 "C08-r7m1": ("osmpbf/decode_data.go scanWays: way.Nodes re-sliced from the node memory of a rejected way without clearing", "FilterWay rejects a way with lat/lon columns and the next accepted way of the group has none and no more refs"),
 "C08-r7m2": ("osmpbf/decode.go Start: headerless-start branch no longer advances the round-robin index", "headerless stream, procs >= 2, at least 2 data blocks"),
 "C09-r7m1": ("osmpbf/decode.go newDecoder: bytesRead initialised from an io.Seeker's position while the restart path still reports 0 for its first block", "resuming on a seekable reader (os.File, bytes.Reader) positioned at a non-zero offset"),
 "C09-r7m2": ("osmpbf/decode_data.go: DateGranularity missing from the per-block reset", "a block without date_granularity decoded by the goroutine that decoded a block with a non-default one; resumed scanner has a fresh decoder"),
 "C10-r7m1": ("feature.go ParseFeatureID: delegates to ParseElementID(s).FeatureID()", "element-shaped text (type/ref:version) handed to the feature parser is accepted"),
 "C10-r7m2": ("object.go ParseObjectID: version parsed with ParseInt(..., 10, versionBits)", "a version in [32768, 65535]"),
 "C11-r7m1": ("annotate/internal/core/compute.go nextVersionIndex: threshold moved from the parent side to the child side of the comparison", "a child history without commit times next to a next-parent version with one (or the reverse) inside one threshold window, i.e. an edit pair straddling 2012-09-12 (mixed-era histories: not generated, the two regimes of the statement do not determine the result)"),
 "C11-r7m2": ("relation.go ApplyUpdatesUpTo: notApplied := r.Updates[:0] (in-place filter)", "a shallow copy sharing Updates queried at a time that applies some but not all updates, then a second query"),
 "C12-r7m1": ("update.go Less: timestamps compared with != instead of Equal", "same instant in different zones and a parent with more than 12 updates"),
 "C12-r7m2": ("annotate/internal/core/compute.go: final SortByIndex only when a chunk starts at a lower index than the tail", "a child at two or more positions of the parent with >= 2 minor versions and no other contributor after it"),
 "C13-r7m1": ("annotate/change.go addUpdate: the previously handled element of the same id becomes Old when the history lookup is older or empty", "the same element twice in a row in one modify/delete block with a history lacking the intermediate version"),
 "C13-r7m2": ("annotate/change.go: Visible set before the lookup + findPrevious* skip invisible history versions for deletes (two sites)", "a delete whose greatest earlier history version is itself not visible"),
 "C14-r7m1": ("annotate/order.go walk: member id taken via m.FeatureID().RelationID()", "a member relation id >= 2^40 or negative"),
 "C14-r7m2": ("annotate/order.go: path buffer capped at 100 levels, deeper descent treated like a cycle", "an acyclic chain nested deeper than 100 levels"),
 "C15-r7m1": ("way.go LineStringAt: due test compares Unix seconds", "an update in the same second as t but strictly later"),
 "C15-r7m2": ("relation.go ApplyUpdatesUpTo: pending updates filtered in place", "another holder of the same Updates backing array (struct copy, reused slice) with a due update stored before a pending one"),
 "C16-r7m1": ("internal/mputil MultiSegment.Ring: orientation check no longer guarded by Orientation != 0", "a ring mixing annotated and un-annotated members"),
 "C16-r7m2": ("internal/mputil MultiSegment.Orientation: shoelace sum without translation to the first point", "a ring a few 1e-7 degrees across far from lon 0 / lat 0"),
 "C17-r7m1": ("osmgeojson/convert.go: membership map not built under NoRelationMembership(true)", "that option plus an untagged way node that is a relation member"),
 "C17-r7m2": ("osmgeojson/convert.go buildRouteLineString: member lines cached across route relations while Join reverses in place", "two route relations sharing a way, the earlier traversing it against node order"),
 "C18-r7m1": ("polygon.go: closedness compared on FeatureID() of the end nodes (drops the top 16 bits)", "an open way whose first and last node ids differ but agree modulo 2^48"),
 "C18-r7m2": ("polygon.go: 'no' matched with EqualFold", "area=No / building=NO and other case variants of no"),
 "C19-r7m1": ("replication/search.go ChangesetStateAt: Min: minChangeset", "changeset replication below sequence 2007990 with missing files at the bisection probes"),
 "C19-r7m2": ("replication/interval.go baseSeqURL: path built by slicing a %09d string", "a sequence number >= 10^9 (no three-level path exists there; outside what the statement determines)"),
 "C20-r7m1": ("osmapi/way.go WayHistory: base URL concatenated into the Sprintf format", "WayHistory with a base URL containing a percent sign"),
 "C20-r7m2": ("osmapi/datasource.go baseURL(): empty BaseURL falls back to DefaultDatasource.BaseURL first", "a custom datasource with empty BaseURL while DefaultDatasource.BaseURL was changed"),
}
import re
PKG_DIR = {"osm_test": ".", "osm": ".", "annotate_test": "annotate", "annotate": "annotate", "osmapi_test": "osmapi", "osmapi": "osmapi",
           "osmgeojson_test": "osmgeojson", "osmgeojson": "osmgeojson", "osmxml_test": "osmxml", "osmxml": "osmxml",
           "replication_test": "replication", "replication": "replication", "osmpbf_test": "osmpbf", "osmpbf": "osmpbf"}
def demo_info(d, name):
    """same placement rule as tools/confirm_mutants.sh: by the demo's package clause"""
    src = open(d + '/demo_test.go').read()
    pkg = re.search(r'^package (\w+)', src, re.M).group(1)
    tests = "|".join(re.findall(r'^func (Test\w*)\(', src, re.M))
    return PKG_DIR.get(pkg, "zz_demo_" + name.replace('-', '').lower()), tests
def from_readme(d):
    """change / needs texts taken from the change's README (rounds without a hand-written entry)"""
    try:
        txt = open(d + '/README.md').read()
    except OSError:
        return None
    lines = txt.split('\n')
    title = next((l.lstrip('# ').strip() for l in lines if l.startswith('#')), '')
    title = re.sub(r'^C\d+\s*/\s*m\d\s*[-\u2014:]+\s*', '', title)
    title = re.sub(r'^m\d\s*[-\u2014:]+\s*', '', title)
    needs = ''
    for i, l in enumerate(lines):
        if re.search(r'needs( in order)? to manifest|what it needs|trigger', l, re.I):
            rest = []
            tail = re.sub(r'^[#*\s]*(what it needs( in order)? to manifest|needs to manifest)[*:.\s]*(\(.*?\))?[*:.\s]*', '', l, flags=re.I).strip()
            if tail and not l.lstrip().startswith('#'):
                rest.append(tail)
            for m in lines[i + 1:]:
                if m.startswith('#') or (not m.strip() and rest):
                    break
                if m.strip():
                    rest.append(m.strip().lstrip('*- ').strip())
                if len(' '.join(rest)) > 350:
                    break
            needs = ' '.join(rest)
            break
    clean = lambda x: re.sub(r'\s+', ' ', x.replace('|', '/').replace('`', '')).strip()
    needs = clean(needs)
    if len(needs) > 380:
        needs = needs[:377].rsplit(' ', 1)[0] + '...'
    return (clean(title), needs)
for d in sorted(os.listdir('/verif/seeded')):
    full = '/verif/seeded/' + d
    if os.path.isdir(full) and os.path.exists(full + '/patch.diff') and d not in NEEDS:
        r = from_readme(full)
        if r:
            NEEDS[d] = r
matrix = {}
if os.path.exists('/verif/seeded/matrix.tsv'):
    for row in csv.reader(open('/verif/seeded/matrix.tsv'), delimiter='\t'):
        if len(row) >= 4: matrix[row[0]] = (row[2], row[3])
rows = []
for name in sorted(NEEDS):
    d = '/verif/seeded/' + name
    if not os.path.isdir(d): continue
    change, needs = NEEDS[name]
    code, sig = matrix.get(name, ("", ""))
    prop = name.split('-')[0]
    demo_dir, tests = demo_info(d, name)
    meta = {
        "id": name, "breaks_property": prop, "change": change, "needs_to_manifest": needs,
        "origin": "fresh sub-agent given only the property text and a scratch worktree",
        "confirmed": "tools/confirm_mutants.sh in a scratch worktree of /repo HEAD: demo passes on the clean tree; with patch.diff applied go build, go vet and the repository's test suite (all packages except osmpbf, whose tests need network fixtures) pass and the demo fails (see confirm.log)",
        "demo": {"file": "demo_test.go", "place_in": demo_dir, "run": "go test -count=1 -run '^(%s)$' ./%s/" % (tests, demo_dir)},
        "detected_by": {"check": "./check %s quick" % prop, "exit": code, "signature": sig},
    }
    json.dump(meta, open(d + '/meta.json', 'w'), indent=1, ensure_ascii=False)
    rows.append((name, prop, change, needs, code, sig))
# matrix for DESIGN.md
lines = ["| change | what it needs to manifest | quick check result |", "|---|---|---|"]
for name, prop, change, needs, code, sig in rows:
    res = ("caught: `%s`" % sig) if code == "1" else ("NOT caught (exit %s)" % code)
    lines.append("| %s: %s | %s | %s |" % (name, change, needs, res))
open('/verif/seeded/MATRIX.md', 'w').write("\n".join(lines) + "\n")
print(len(rows), "meta files;", sum(1 for r in rows if r[4] == "1"), "caught")
