#!/bin/bash
# Confirms every seeded change under /tmp/mut/<ID>/_out/mN in a scratch worktree of /repo's HEAD:
#   demo passes on the clean tree; with the patch: build, vet and the repository's suite pass and the demo fails.
# Writes /tmp/mut/confirm_report.txt and, for confirmed ones, /verif/seeded/<ID>-mN/{patch.diff,demo_test.go,README.md,confirm.log}
export GOFLAGS=-mod=mod GOPROXY=off GOSUMDB=off GOTOOLCHAIN=local
W=${W:-/tmp/mut/_confirm}
REPORT=${REPORT:-/tmp/mut/confirm_report.txt}
git -C /repo worktree remove --force $W 2>/dev/null
git -C /repo worktree add --detach $W HEAD -q || exit 2
: > $REPORT
SUITE=". ./annotate/... ./internal/... ./osmapi/... ./osmgeojson/... ./osmtest/... ./osmxml/... ./replication/..."
for d in /tmp/mut/C*/_out/m*; do
  id=$(echo $d | sed "s#/tmp/mut/\(C[0-9]*\)/_out/\(m[0-9]\)#\1-${ROUND}\2#")
  [ -n "$1" ] && [ "$1" != "${id%%-*}" ] && continue
  demo=$(ls $d/demo_test.go $d/demo/main.go 2>/dev/null | head -1)
  [ -f "$d/patch.diff" ] && [ -n "$demo" ] || { echo "$id SKIP no patch/demo" >> $REPORT; continue; }
  cd $W && git checkout -q -- . && git clean -fdq
  pkg=$(sed -n 's/^package \([a-zA-Z0-9_]*\).*/\1/p' $demo | head -1)
  case "$pkg" in
    osm_test|osm) dir=. ;;
    annotate_test|annotate) dir=annotate ;;
    osmapi_test|osmapi) dir=osmapi ;;
    osmgeojson_test|osmgeojson) dir=osmgeojson ;;
    osmxml_test|osmxml) dir=osmxml ;;
    replication_test|replication) dir=replication ;;
    osmpbf_test|osmpbf) dir=osmpbf ;;
    *) dir=zz_demo_$(echo $id | tr -d '-' | tr 'A-Z' 'a-z') ;;
  esac
  mkdir -p $W/$dir
  dst=$W/$dir/zz_seeded_demo_test.go
  tests=$(sed -n 's/^func \(Test[A-Za-z0-9_]*\)(.*/\1/p' $demo | paste -sd'|')
  log=/tmp/mut/confirm_$id.log; : > $log
  run_demo() { for tf in $d/*_test.go; do cp $tf $W/$dir/zz_seeded_$(basename $tf); done; (cd $W && timeout 600 go test -count=1 -run "^($tests)\$" ./$dir/ >> $log 2>&1); rc=$?; rm -f $W/$dir/zz_seeded_*_test.go; return $rc; }
  echo "== clean tree demo" >> $log; run_demo; clean=$?
  (cd $W && git apply $d/patch.diff >> $log 2>&1) || { echo "$id FAIL patch does not apply to HEAD" >> $REPORT; continue; }
  echo "== build/vet" >> $log; (cd $W && go build ./... >> $log 2>&1 && go vet ./osmpbf/ ./osmxml/ ./annotate/... ./replication/ ./osmapi/ ./osmgeojson/ . >> $log 2>&1); build=$?
  echo "== suite" >> $log; (cd $W && timeout 1200 go test -count=1 $SUITE >> $log 2>&1); suite=$?
  echo "== patched demo" >> $log; run_demo; patched=$?
  (cd $W && git checkout -q -- . && git clean -fdq)
  verdict=CONFIRMED
  [ $clean -eq 0 ] && [ $build -eq 0 ] && [ $suite -eq 0 ] && [ $patched -ne 0 ] || verdict=REJECTED
  echo "$id $verdict demo_clean=$clean build=$build suite=$suite demo_patched=$patched dir=$dir tests=$tests" >> $REPORT
  if [ $verdict = CONFIRMED ]; then
    s=/verif/seeded/$id; mkdir -p $s
    cp $d/patch.diff $s/patch.diff; cp $d/*_test.go $s/ 2>/dev/null; cp $demo $s/$(basename $demo); cp $d/README.md $s/README.md 2>/dev/null
    tail -c 3000 $log > $s/confirm.log
    echo "$dir" > $s/.demo_dir; echo "$tests" > $s/.demo_tests
  fi
done
cd /; git -C /repo worktree remove --force $W
cat $REPORT
