#!/bin/bash
# usage: tools/eval_round.sh <round tag, e.g. r4> <ID>...
# runs the quick check of each property against its seeded/<ID>-<round>m* changes only
cd /verif
round="$1"; shift
for id in "$@"; do
  for s in seeded/$id-${round}m*; do
    [ -f $s/patch.diff ] || continue
    out=$(tools/try_mutant.sh /verif/$s/patch.diff $id quick 2>&1)
    code=$(echo "$out" | sed -n 's/^exit=//p')
    sig=$(echo "$out" | sed -n 's/^ *signature=\([^ ]*\).*/\1/p' | head -1)
    echo "$(basename $s): exit=$code $sig"
  done
done
