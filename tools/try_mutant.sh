#!/bin/sh
# usage: tools/try_mutant.sh <patch.diff> <property id> [tier]
# Applies a seeded change to /repo, runs the check, and always reverts.
patch="$1"; id="$2"; tier="${3:-quick}"
cd /repo || exit 2
if [ -n "$(git status --porcelain --untracked-files=no)" ]; then echo "/repo not clean"; exit 2; fi
git apply "$patch" || { echo "patch does not apply"; exit 2; }
cd /verif && ./check "$id" "$tier"; code=$?
git -C /repo checkout -- .
echo "exit=$code"
exit $code
