#!/usr/bin/env python3
"""usage: tools/addreg.py '<go struct literal body>'  -- appends an entry to cmd/vcheck/registry.go"""
import sys
p='/verif/cmd/vcheck/registry.go'
s=open(p).read().rstrip()
assert s.endswith('}')
s=s[:-1]+"\t{\n"+sys.argv[1].strip()+"\n\t},\n}\n"
open(p,'w').write(s)
