#!/bin/bash
cd /verif
for i in 01 02 03 04 05 06 07 08 09 11 12 13 14 15 16 17 18 19 20 10; do
  s=$(date +%s)
  out=$(./check C$i thorough 2>&1 | grep -v "^KNOWN" | tail -3)
  echo "C$i $(( $(date +%s) - s ))s :: $out"
done
