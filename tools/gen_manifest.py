#!/usr/bin/env python3
"""Regenerates /verif/MANIFEST.json from the table below (run from /verif)."""
import json

PBF_NOTE = ("Trusts the harness's independent PBF model + wire encoder (internal/pbfgen) as the definition of "
            "'valid file' (packed encodings, one kind per group, zlib/raw blobs) and of the objects the format defines; "
            "Go toolchain, protowire varint writer and compress/zlib are trusted.")

CHECKS = {
 "C01": dict(
  level="exploration",
  text="1 500 generated files per quick run (16x6 000 thorough) from an independent PBF encoder, neighbouring blocks deliberately differing in optional parts; every object and the header compared field for field with the format's formulas. Files are read through four reader behaviours (incl. final bytes together with io.EOF) and with a nil context; sub-checks add 16-32 MiB blobs and a second scanner alive while the first waits for input; returned objects must not share memory. Sampled, not exhaustive: bounded block counts (<=6) and sizes (<=9 000 elements).",
  note=PBF_NOTE,
  technique="property-based testing (rapid): independent encoder as generator, format-formula oracle, correlated 'flip' generation of neighbouring blocks"),
 "C02": dict(
  level="exploration",
  text="250 generated (file, decoder count, perturbation plan) cases per quick run under the race detector; the plan delays individual blocks inside decoder callbacks, throttles the reader and the consumer and varies GOMAXPROCS, so later blocks finish before earlier ones in >50% of measured cases; sub-checks add blocks above the 8 000-object pre-allocation with a slow consumer and two scanners alive at once (also with GOMAXPROCS=1 and the collector off). Schedules are sampled, not enumerated.",
  note=PBF_NOTE + " The OS scheduler is not controlled; the Go race detector is trusted for the executed interleavings.",
  technique="property-based testing (rapid) of schedules: generated perturbation plans + model/snapshot oracle + Go race detector"),
 "C06": dict(
  level="fault_enumeration",
  text="Per generated file EVERY byte offset is cut and every enumerated damage class is (incl. a well-formed 64 KiB blob header and negative string references) applied at the header block and first/last data block (thorough: every block), each scan isolated in a child process with a hang watchdog; readers that fail with a transport error instead of ending are cut at every block boundary and every seventh offset; ~8 000 scans per quick run. The files themselves (10 small ones quick, 120 thorough) are sampled; thorough adds native fuzzing of the byte stream for crash/hang only.",
  note=PBF_NOTE + " A zlib bit flip counts as damage only if Go's compress/zlib rejects the stream or inflates it differently. One listed known finding (zlib stream end not verified by the czlib dependency) is excluded by construction and witnessed deterministically.",
  technique="fault enumeration driven by property-based generation (rapid): exhaustive cut points + damage-class x position matrix per file, prefix/err oracle from the model, child-process isolation; native go fuzzing as robustness supplement"),
 "C07": dict(
  level="exploration",
  text="200 PBF and 1 000 XML call histories per quick run (Header, k Scans, Close / cancel from the scanning or a second goroutine, further Scan/Err/Close calls) on files of 60-500 blocks incl. endless, truncated (EOF or transport error), resumed (headerless) inputs and first blocks that are rejected, under the race detector; oracle is a model of the statement's Err precedence, a byte bound on what the reader was asked for, goroutine-dump cleanliness and a 20 s hang watchdog. Histories and schedules are sampled.",
  note=PBF_NOTE + " Read-ahead allowance of 3*procs+30 blocks; either error accepted after cancel+Close; nil accepted after a complete scan.",
  technique="stateful property-based testing (rapid-generated call histories executed against a reference model) + Go race detector + goroutine-dump and byte-count observers"),
 "C08": dict(
  level="exploration",
  text="1 500 generated files x skip flags x 9 pure predicate kinds per type x decoder counts per quick run; oracle = model sequence filtered in the harness, deep snapshots at receipt vs end, what the filter saw vs what was returned, multiset of elements shown to filters. Sampled.",
  note=PBF_NOTE + " Predicates are pure functions of the element.",
  technique="property-based testing (rapid): metamorphic subsequence relation against the model + snapshot immutability oracle"),
 "C09": dict(
  level="exploration",
  text="500 generated files per quick run; counters checked after EVERY Scan (all stop positions of each file) and a second scanner started at EVERY reportable block offset, compared with the model's remaining objects; resumed scanners read a buffer cut at the offset or a seekable whole-file reader positioned there, use up to 16 decoders, may call Header(), and one case in four resumes while the first scanner is still open and waiting for input; files are sampled.",
  note=PBF_NOTE + " Block byte offsets come from the harness encoder.",
  technique="property-based testing (rapid) with per-file enumeration of all stop positions and resume offsets; oracle = encoder offsets + model suffix"),
 "C10": dict(
  level="exploration",
  text="Exhaustive sweep of every bit-field boundary (17k ids) plus ~70k random ids, pairs, sort inputs and parser strings per quick run against an independent (kind,ref,version) model and an independent text recogniser; sampled, not proved, outside the boundary sets.",
  note="Trusts the harness's own transcription of the id layout claims (ranges, kind order, text shape) taken from the property statement; strconv-accepted signs and out-of-range numbers are not judged.",
  technique="property-based testing (rapid) + exhaustive boundary enumeration + native fuzzing of the parsers; round-trip and reference-model oracles"),
 "C03": dict(
  level="exploration",
  text="8 000 documents per quick run (<osm>, osmChange, augmented diff) rendered by an independent XML writer with randomised layout (unknown attributes and elements, also inside diff actions); whole-document decode compared with the model per kind and the streaming scanner with the model in document order. Sampled over the document/layout space.",
  note="Trusts the harness's own XML writer and model (internal/osmdoc), which take element and attribute names from the OSM XML format description; Go's encoding/xml tokenizer is trusted. An absent attribute means the field's zero value.",
  technique="property-based testing (rapid): independent writer as generator, model oracle + differential streaming-vs-whole-document"),
 "C04": dict(
  level="exploration",
  text="13 000 values per quick run (each element kind, OSM, Change and Diff containers incl. top-level bounds) marshalled and unmarshalled; result compared with the generating model and the marshalled text also read by the streaming scanner. Sampled.",
  note="Model and comparers from internal/osmdoc; XML-representable strings, finite floats, UTC times, whole-second note dates; nil and empty are the same value.",
  technique="property-based testing (rapid): round-trip oracle against the generating model + scanner differential"),
 "C05": dict(
  level="exploration",
  text="9 500 cases per quick run: OSM values round-tripped under five codec configurations (incl. only one half of a custom codec installed), by pointer and by value, with a generic shape check of the output, and independently written osmjson documents (version number - value must survive up to 17 digits - /string/absent, unknown keys, Overpass/API styles) decoded and compared with the model; an element that lost its type must be judged the same alone and after typed elements. Sampled.",
  note="Custom codecs are harness-written implementations over encoding/json (json-iterator cannot run here); tag keys unique; codec variables are process-global and restored per case.",
  technique="property-based testing (rapid): shape predicate on generically parsed output, round-trip and independent-writer oracles, codec differential with call counting"),
 "C11": dict(
  level="exploration",
  text="20 000 ground-truth timelines per quick run (commit and pre-commit regimes, ways and relations) annotated by the library; annotations, update lists and the state after ApplyUpdatesUpTo(t) for every timeline instant compared with the timeline itself; typed errors checked. Sampled histories; ties with the next parent version are not judged.",
  note="The oracle is the generator's timeline (internal/histgen), not a re-implementation of the matcher. Pre-commit windows hold at most one child version so the answer does not depend on nearest-in-window tie-breaking; mixed-era histories are not generated.",
  technique="property-based testing (rapid): ground-truth timeline generation, state-at-time oracle, time-travel metamorphic check"),
 "C12": dict(
  level="exploration",
  text="2 500 histories per quick run biased to parents with >12 updates and same-second version clusters, each annotated 8 times on freshly built equal input; all runs must agree byte for byte (or all fail) and every update list must be sorted by (index, time, version); plus 4 000 direct SortByIndex cases over the whole range of time.Time. Map iteration orders are sampled by repetition.",
  note="Go randomises map iteration per range statement; 8 repetitions per case sample it. Error identity may differ between runs.",
  technique="property-based testing (rapid): repeated-execution determinism oracle + sortedness invariant"),
 "C13": dict(
  level="exploration",
  text="20 000 generated changes x histories per quick run (unsorted, gapped, with own/later versions, duplicates, missing, empty; with/without IgnoreMissingChildren) compared with a reference pairing written in the harness.",
  note="Duplicate history entries of the predecessor version are interchangeable; datasource is the library's map-backed HistoryDatasource.",
  technique="property-based testing (rapid): reference-model oracle"),
 "C14": dict(
  level="exploration",
  text="10 000 reference graphs per quick run (DAGs, cycles, self loops, missing histories, multi-version member sets) with complete runs, Close after k and cancel after k; validity predicate on the emitted sequence (once, only with history, requested-or-reachable, children first on acyclic graphs for every prefix) plus deadlock and goroutine-leak detection; sub-checks add chains of 90..260 levels and two orderings alive at once; lookups may fail with a real error. Stop interleavings are sampled.",
  note="Relation ids >= 1; order judged only when the whole graph is acyclic, as the statement says; 10 s deadline + goroutine dump distinguishes blocked from slow.",
  technique="property-based testing (rapid): validity-predicate oracle over generated graphs and stop plans, watchdog for termination"),
 "C15": dict(
  level="exploration",
  text="30 000 generated ways/relations x update lists (index-sorted, time-sorted, shuffled) x times per quick run against a reference apply written in the harness; composition and geometry-at-time clauses checked where the statement conditions them.",
  note="Indices >= 0; geometry clause only for fully annotated ways with in-range indices; composition only when each child's updates are time-ordered.",
  technique="property-based testing (rapid): reference-model oracle + metamorphic relations (composition, LineStringAt vs apply-on-copy)"),
 "C16": dict(
  level="exploration",
  text="5 000 ground-truth polygon sets per quick run (jittered and integer-grid rings, holes, 1..4 outers) cut, reversed and shuffled, each converted in 15 configurations (three coordinate sources x five orientation annotation modes, incl. partial annotations and two relations over the same ways); result compared with the ground truth as sets of canonical rings, winding by shoelace; orientation annotations compared with piece direction.",
  note="Ground truth is simple, disjoint, holes strictly inside, no vertex at (0,0); exact float equality because coordinates are copied.",
  technique="property-based testing (rapid): ground-truth reconstruction oracle + configuration differential"),
 "C17": dict(
  level="exploration",
  text="4 000 generated OSM data sets per quick run, each converted under all 16 option combinations; statement rules evaluated on the model, options compared metamorphically with the default conversion, determinism and input immutability checked.",
  note="Ways reference located or missing nodes; a way is the outer of at most one multipolygon relation (old-style identity take-over is not judged twice); multipolygon geometry itself belongs to C16.",
  technique="property-based testing (rapid): rule oracle on the model + metamorphic option relations + immutability/determinism checks"),
 "C18": dict(
  level="exploration",
  text="Exhaustive sweep (about 38 000 cases) over the harness's transcription of the published rule table: every key x value class x area class x node-list shape (incl. open ways whose end ids agree in their low bits), all ordered key pairs, relations; plus 20 000 random tag sets with permutation invariance.",
  note="Trusts the harness's transcription of the Overpass-turbo polygon-features list (26 keys); tag sets have unique keys.",
  technique="exhaustive enumeration of the rule table + property-based testing (rapid) of random tag sets; direct rule-text oracle"),
 "C19": dict(
  level="exploration",
  text="10 000 generated replication directories x query times per quick run served by an in-process RoundTripper and (150 cases) by a gzip-compressing loopback server: a fifth of them far directories (second path level, few states, query exactly on a state's timestamp): result compared with the first available state at or after t, every request path validated, request count bounded.",
  note="Current state always exists; timestamps increase; budget 8*(log2(cur)+2)+4*missing+16; queries before every state only with missing prefixes <= 2000 files.",
  technique="property-based testing (rapid) with fault injection (404 patterns): reference search oracle + request-path and request-budget invariants"),
 "C20": dict(
  level="exploration",
  text="20 000 generated calls per quick run over all 26 endpoints x options x base URLs x limiter modes x 20 statuses x response bodies, plus the exhaustive endpoint x status matrix; request and result compared with the harness's transcription of API v0.6.",
  note="Endpoint table transcribed from the API v0.6 documentation (+ the library-documented at= extension); 3xx excluded; served by an in-process RoundTripper.",
  technique="property-based testing (rapid) + exhaustive endpoint x status matrix; specification-table oracle with fault injection (statuses, failing limiter)"),
}

NOT_YET = "check under construction in this round (planned in DESIGN.md §3); it will be claimed once its quick tier is silent on the unchanged tree"

def main():
    checks = []
    for pid in sorted(CHECKS):
        c = CHECKS[pid]
        checks.append({
            "property_id": pid,
            "quick_cmd": "./check %s quick" % pid,
            "thorough_cmd": "./check %s thorough" % pid,
            "evidence_file": "evidence/%s.json" % pid,
            "replay_cmd_template": "./check %s replay   # re-runs every saved case under replays/%s ({path} is one of them) through the same oracle" % (pid, pid),
            "engine": "vcheck",
            "level_claimed": {"category": c["level"], "text": c["text"], "design_ref": "DESIGN.md §3 " + pid},
            "level_note": c["note"],
            "technique": c["technique"],
        })
    na = [{"property_id": "C%02d" % i, "reason": NOT_YET} for i in range(1, 21) if "C%02d" % i not in CHECKS]
    m = {
        "version": 1,
        "setup_cmd": "./setup.sh",
        "hooks": {
            "guard": "verif",
            "enable": "no hooks are needed: every check drives the public API of /repo through `replace github.com/paulmach/osm => /repo`; the Go build tag `verif` is reserved and unused",
            "baseline_off_cmd": "cd /repo && GOFLAGS=-mod=mod go test -vet=off -count=1 -timeout 25m ./...",
            "source_commits": [],
            "add_only": True,
        },
        "engines": [{
            "name": "vcheck", "path": "cmd/vcheck", "serves_properties": sorted(CHECKS),
            "kind_free_text": "driver: builds props/<id> against /repo's working tree (go test -c, -race where needed), runs rapid-driven property tests (one process per property, sharded by seed in the thorough tier), merges per-process results into evidence/<id>.json, matches violations against known_findings.json and maps everything to the exit-code contract",
        }],
        "checks": checks,
        "notes": "exit 0 = held on everything explored; exit 1 + 'VIOLATION property=<id> replay=<path>'; exit 2 = inconclusive (harness/infra trouble, timeout, /repo does not compile). VERIF_SEED seeds every random choice (rapid seed = VERIF_SEED*1000+shard).",
        "not_applicable": na,
    }
    json.dump(m, open("MANIFEST.json", "w"), indent=1, ensure_ascii=False)
    print("MANIFEST.json: %d checks, %d not claimed" % (len(checks), len(na)))

main()
