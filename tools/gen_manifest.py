#!/usr/bin/env python3
"""Regenerates /verif/MANIFEST.json from the table below (run from /verif)."""
import json

PBF_NOTE = ("Trusts the harness's independent PBF model + wire encoder (internal/pbfgen) as the definition of "
            "'valid file' (packed encodings, one kind per group, zlib/raw blobs) and of the objects the format defines; "
            "Go toolchain, protowire varint writer and compress/zlib are trusted.")

CHECKS = {
 "C01": dict(
  level="exploration",
  text="1 500 generated files per quick run (16x6 000 thorough) from an independent PBF encoder, neighbouring blocks deliberately differing in optional parts; every object and the header compared field for field with the format's formulas. Sampled, not exhaustive: bounded block counts (<=6) and sizes (<=9 000 elements).",
  note=PBF_NOTE,
  technique="property-based testing (rapid): independent encoder as generator, format-formula oracle, correlated 'flip' generation of neighbouring blocks"),
 "C02": dict(
  level="exploration",
  text="250 generated (file, decoder count, perturbation plan) cases per quick run under the race detector; the plan delays individual blocks inside decoder callbacks, throttles the reader and the consumer and varies GOMAXPROCS, so later blocks finish before earlier ones in >50% of measured cases. Schedules are sampled, not enumerated.",
  note=PBF_NOTE + " The OS scheduler is not controlled; the Go race detector is trusted for the executed interleavings.",
  technique="property-based testing (rapid) of schedules: generated perturbation plans + model/snapshot oracle + Go race detector"),
 "C06": dict(
  level="fault_enumeration",
  text="Per generated file EVERY byte offset is cut and every enumerated damage class is applied at the header block and first/last data block (thorough: every block), each scan isolated in a child process with a hang watchdog; ~6 600 scans per quick run. The files themselves (10 small ones quick, 120 thorough) are sampled; thorough adds native fuzzing of the byte stream for crash/hang only.",
  note=PBF_NOTE + " A zlib bit flip counts as damage only if Go's compress/zlib rejects the stream or inflates it differently. One listed known finding (zlib stream end not verified by the czlib dependency) is excluded by construction and witnessed deterministically.",
  technique="fault enumeration driven by property-based generation (rapid): exhaustive cut points + damage-class x position matrix per file, prefix/err oracle from the model, child-process isolation; native go fuzzing as robustness supplement"),
 "C07": dict(
  level="exploration",
  text="200 PBF and 1 000 XML call histories per quick run (Header, k Scans, Close / cancel from the scanning or a second goroutine, further Scan/Err/Close calls) on files of 60-500 blocks incl. endless and truncated inputs, under the race detector; oracle is a model of the statement's Err precedence, a byte bound on what the reader was asked for, goroutine-dump cleanliness and a 20 s hang watchdog. Histories and schedules are sampled.",
  note=PBF_NOTE + " Read-ahead allowance of 3*procs+30 blocks; either error accepted after cancel+Close; nil accepted after a complete scan.",
  technique="stateful property-based testing (rapid-generated call histories executed against a reference model) + Go race detector + goroutine-dump and byte-count observers"),
 "C08": dict(
  level="exploration",
  text="1 500 generated files x skip flags x 9 pure predicate kinds per type x decoder counts per quick run; oracle = model sequence filtered in the harness, deep snapshots at receipt vs end, what the filter saw vs what was returned, multiset of elements shown to filters. Sampled.",
  note=PBF_NOTE + " Predicates are pure functions of the element.",
  technique="property-based testing (rapid): metamorphic subsequence relation against the model + snapshot immutability oracle"),
 "C09": dict(
  level="exploration",
  text="500 generated files per quick run; counters checked after EVERY Scan (all stop positions of each file) and a second scanner started at EVERY reportable block offset, compared with the model's remaining objects; files are sampled.",
  note=PBF_NOTE + " Block byte offsets come from the harness encoder.",
  technique="property-based testing (rapid) with per-file enumeration of all stop positions and resume offsets; oracle = encoder offsets + model suffix"),
 "C10": dict(
  level="exploration",
  text="Exhaustive sweep of every bit-field boundary (17k ids) plus ~70k random ids, pairs, sort inputs and parser strings per quick run against an independent (kind,ref,version) model and an independent text recogniser; sampled, not proved, outside the boundary sets.",
  note="Trusts the harness's own transcription of the id layout claims (ranges, kind order, text shape) taken from the property statement; strconv-accepted signs and out-of-range numbers are not judged.",
  technique="property-based testing (rapid) + exhaustive boundary enumeration + native fuzzing of the parsers; round-trip and reference-model oracles"),
}

NOT_YET = "check under construction in this round (planned in DESIGN.md §3); it will be claimed once its quick tier is silent on the unchanged tree"

def main():
    checks = []
    for pid in sorted(CHECKS):
        c = CHECKS[pid]
        checks.append({
            "property_id": pid,
            "quick_cmd": "./check %s quick" % pid,
            "thorough_cmd": "./check %s thorough" % pid,
            "evidence_file": "evidence/%s.json" % pid,
            "replay_cmd_template": "./check %s replay   # re-runs every saved case under replays/%s ({path} is one of them) through the same oracle" % (pid, pid),
            "engine": "vcheck",
            "level_claimed": {"category": c["level"], "text": c["text"], "design_ref": "DESIGN.md §3 " + pid},
            "level_note": c["note"],
            "technique": c["technique"],
        })
    na = [{"property_id": "C%02d" % i, "reason": NOT_YET} for i in range(1, 21) if "C%02d" % i not in CHECKS]
    m = {
        "version": 1,
        "setup_cmd": "./setup.sh",
        "hooks": {
            "guard": "verif",
            "enable": "no hooks are needed: every check drives the public API of /repo through `replace github.com/paulmach/osm => /repo`; the Go build tag `verif` is reserved and unused",
            "baseline_off_cmd": "cd /repo && GOFLAGS=-mod=mod go test -vet=off -count=1 -timeout 25m ./...",
            "source_commits": [],
            "add_only": True,
        },
        "engines": [{
            "name": "vcheck", "path": "cmd/vcheck", "serves_properties": sorted(CHECKS),
            "kind_free_text": "driver: builds props/<id> against /repo's working tree (go test -c, -race where needed), runs rapid-driven property tests (one process per property, sharded by seed in the thorough tier), merges per-process results into evidence/<id>.json, matches violations against known_findings.json and maps everything to the exit-code contract",
        }],
        "checks": checks,
        "notes": "exit 0 = held on everything explored; exit 1 + 'VIOLATION property=<id> replay=<path>'; exit 2 = inconclusive (harness/infra trouble, timeout, /repo does not compile). VERIF_SEED seeds every random choice (rapid seed = VERIF_SEED*1000+shard).",
        "not_applicable": na,
    }
    json.dump(m, open("MANIFEST.json", "w"), indent=1, ensure_ascii=False)
    print("MANIFEST.json: %d checks, %d not claimed" % (len(checks), len(na)))

main()
