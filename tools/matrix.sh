#!/bin/bash
# runs the quick check of every property against each of its seeded changes; writes seeded/matrix.tsv
# usage: tools/matrix.sh [glob-suffix]   e.g. tools/matrix.sh 'r2m*' appends only round-2 entries
cd /verif
pat="${1:-*m*}"
[ -z "$1" ] && : > seeded/matrix.tsv
for s in seeded/C*-$pat; do
  [ -f $s/patch.diff ] || continue
  id=$(basename $s | cut -d- -f1)
  out=$(tools/try_mutant.sh /verif/$s/patch.diff $id quick 2>&1)
  code=$(echo "$out" | sed -n 's/^exit=//p')
  sig=$(echo "$out" | sed -n 's/^ *signature=\([^ ]*\).*/\1/p' | head -1)
  echo -e "$(basename $s)\t$id\t$code\t$sig" >> seeded/matrix.tsv
done
rm -rf replays/C*
