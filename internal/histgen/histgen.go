// Package histgen generates ground-truth edit timelines (parent versions and
// the histories of their children) for the annotation properties C11 and C12,
// and derives from the timeline - never from the matcher under test - which
// child version is current at any time.
package histgen

import (
	"context"
	"errors"
	"fmt"
	"math/rand"
	"time"

	"github.com/paulmach/osm"
	"github.com/paulmach/osm/annotate/shared"
	"pgregory.net/rapid"
)

const (
	Commit = 0 // every element carries a commit time >= osm.CommitInfoStart
	Pre    = 1 // no commit info, timestamps before 2012-09-12: threshold matching
)

// CV is one version of a child.
type CV struct {
	Ver     int
	At      int // commit instant (Commit) / timestamp (Pre), seconds after the base time
	Visible bool
	CS      int64
	Lat     float64
	Lon     float64
	Rev     bool // way children: node order reversed relative to the first version
	Zone    int  // location of the time values: 0 UTC, 1 a zero-offset fixed zone ("+00:00"), 2 +01:00, 3 -05:30 (same instant)
}

type Child struct {
	Kind     int // 0 node, 1 way, 2 relation
	ID       int64
	Missing  bool // no history in the data source
	Versions []CV // ascending versions
}

// PV is one version of the parent.
type PV struct {
	Ver     int
	At      int
	Visible bool
	CS      int64
	Refs    []int  // indexes into Children
	PreAnn  []bool // per ref: already annotated (version 77) before the call
}

type Case struct {
	Regime              int
	Eps                 int // threshold in seconds
	ParentIsWay         bool
	Children            []Child
	Parents             []PV
	IgnoreInconsistency bool
	IgnoreMissing       bool
	Shuffle             int64  // order in which histories are handed to the data source
	AsChildren          bool   // use the ...AsChildren data source interface
	PolygonRel          bool   // relation parents are type=multipolygon (orientation code path) instead of route
	LateBase            bool   // Pre regime only: timestamps in 2015 (no commit info although after CommitInfoStart)
	Reject              []bool // per child: ChildFilter returns false (nil = no filter)
	StaleUpdates        bool   // the parents already carry update lists before the call (re-annotation): all versions share one list of three bogus updates, backing array included
	SharedIDs           bool   // relation parents: child ids are unique per kind only (node/1 and way/1 both occur)
	FailChild           int    // k > 0: the data source fails with ErrBackend (not a not-found error) when the history of child k-1 is requested
	TickMS              int    // Commit regime: length of one time unit in milliseconds (0 = 1000); sub-second units give commit instants that differ within one wall-clock second
}

var (
	BaseCommit = time.Date(2014, 1, 1, 0, 0, 0, 0, time.UTC)
	BasePre    = time.Date(2010, 1, 1, 0, 0, 0, 0, time.UTC)
	BaseLate   = time.Date(2015, 6, 1, 0, 0, 0, 0, time.UTC)
)

func (c *Case) Base() time.Time {
	if c.Regime == Commit {
		return BaseCommit
	}
	if c.LateBase {
		return BaseLate
	}
	return BasePre
}

// Unit is the length of one unit of the At/Eps values.
func (c *Case) Unit() time.Duration {
	if c.TickMS > 0 {
		return time.Duration(c.TickMS) * time.Millisecond
	}
	return time.Second
}

func (c *Case) Time(s int) time.Time { return c.Base().Add(time.Duration(s) * c.Unit()) }

// Eff is the effective time of version k of child ci: its commit instant, or in
// the pre-commit regime its timestamp, except that a version stamped within
// (T, T+eps] of a parent version T in that parent's changeset belongs to T.
func (c *Case) Eff(ci, k int) int {
	v := c.Children[ci].Versions[k]
	if c.Regime == Commit {
		return v.At
	}
	for _, p := range c.Parents {
		if v.At > p.At && v.At <= p.At+c.Eps && v.CS == p.CS {
			return p.At
		}
	}
	return v.At
}

// State returns the index of the version of child ci current at time t (-1: none).
func (c *Case) State(ci int, t int) int {
	r := -1
	for k := range c.Children[ci].Versions {
		if c.Eff(ci, k) <= t {
			r = k
		}
	}
	return r
}

func fid(ch Child) osm.FeatureID {
	switch ch.Kind {
	case 0:
		return osm.NodeID(ch.ID).FeatureID()
	case 1:
		return osm.WayID(ch.ID).FeatureID()
	}
	return osm.RelationID(ch.ID).FeatureID()
}

// FeatureID of child ci.
func (c *Case) FeatureID(ci int) osm.FeatureID { return fid(c.Children[ci]) }

var zones = []*time.Location{time.UTC, time.FixedZone("", 0), time.FixedZone("", 3600), time.FixedZone("", -(5*3600 + 1800))}

func (c *Case) stamp(at int, zone ...int) (ts time.Time, committed *time.Time) {
	loc := time.UTC
	if len(zone) > 0 {
		loc = zones[zone[0]%len(zones)]
	}
	if c.Regime == Commit {
		cm := c.Time(at).In(loc)
		return cm.Add(-time.Second), &cm // the timestamp differs from the commit time on purpose
	}
	return c.Time(at).In(loc), nil
}

// ErrBackend is the injected data source fault (NotFound reports false for it).
var ErrBackend = errors.New("histgen: injected backend failure")

// DS is the data source built from the case.
type DS struct {
	osm.HistoryDatasource
	Fail map[osm.FeatureID]bool // histories whose lookup fails with ErrBackend
}

func (d *DS) NodeHistory(ctx context.Context, id osm.NodeID) (osm.Nodes, error) {
	if d.Fail[id.FeatureID()] {
		return nil, ErrBackend
	}
	return d.HistoryDatasource.NodeHistory(ctx, id)
}

func (d *DS) WayHistory(ctx context.Context, id osm.WayID) (osm.Ways, error) {
	if d.Fail[id.FeatureID()] {
		return nil, ErrBackend
	}
	return d.HistoryDatasource.WayHistory(ctx, id)
}

func (d *DS) RelationHistory(ctx context.Context, id osm.RelationID) (osm.Relations, error) {
	if d.Fail[id.FeatureID()] {
		return nil, ErrBackend
	}
	return d.HistoryDatasource.RelationHistory(ctx, id)
}

// AsChildrenDS additionally implements the ...AsChildren interfaces.
type AsChildrenDS struct {
	*DS
}

func toChildren[T any](list []T, conv func(T) *shared.Child, ver func(T) int) []*shared.Child {
	// children must be sorted by version with VersionIndex set
	out := make([]*shared.Child, 0, len(list))
	for _, e := range list {
		out = append(out, conv(e))
	}
	for i := 1; i < len(out); i++ {
		for j := i; j > 0 && out[j].Version < out[j-1].Version; j-- {
			out[j], out[j-1] = out[j-1], out[j]
		}
	}
	for i := range out {
		out[i].VersionIndex = i
	}
	return out
}

func (d AsChildrenDS) NodeHistoryAsChildren(ctx context.Context, id osm.NodeID) ([]*shared.Child, error) {
	ns, err := d.NodeHistory(ctx, id)
	if err != nil {
		return nil, err
	}
	return toChildren([]*osm.Node(ns), shared.FromNode, nil), nil
}

func (d AsChildrenDS) WayHistoryAsChildren(ctx context.Context, id osm.WayID) ([]*shared.Child, error) {
	ws, err := d.WayHistory(ctx, id)
	if err != nil {
		return nil, err
	}
	out := toChildren([]*osm.Way(ws), shared.FromWay, nil)
	for i := 1; i < len(out); i++ {
		a, b := out[i].Way, out[i-1].Way
		if len(a.Nodes) >= 2 && len(b.Nodes) >= 2 {
			out[i].ReverseOfPrevious = a.Nodes[0].ID == b.Nodes[len(b.Nodes)-1].ID && b.Nodes[0].ID == a.Nodes[len(a.Nodes)-1].ID
		}
	}
	return out, nil
}

func (d AsChildrenDS) RelationHistoryAsChildren(ctx context.Context, id osm.RelationID) ([]*shared.Child, error) {
	rs, err := d.RelationHistory(ctx, id)
	if err != nil {
		return nil, err
	}
	return toChildren([]*osm.Relation(rs), shared.FromRelation, nil), nil
}

// BuildDS creates the data source (histories in shuffled order).
func (c *Case) BuildDS() *DS {
	d := &DS{}
	if c.FailChild > 0 && c.FailChild <= len(c.Children) && !c.Children[c.FailChild-1].Missing {
		d.Fail = map[osm.FeatureID]bool{c.FeatureID(c.FailChild - 1): true}
	}
	d.Nodes = map[osm.NodeID]osm.Nodes{}
	d.Ways = map[osm.WayID]osm.Ways{}
	d.Relations = map[osm.RelationID]osm.Relations{}
	rnd := rand.New(rand.NewSource(c.Shuffle + 1))
	for _, ch := range c.Children {
		if ch.Missing {
			continue
		}
		order := rnd.Perm(len(ch.Versions))
		if c.Shuffle == 0 {
			for i := range order {
				order[i] = i
			}
		}
		for _, k := range order {
			v := ch.Versions[k]
			ts, cm := c.stamp(v.At, v.Zone)
			switch ch.Kind {
			case 0:
				d.Nodes[osm.NodeID(ch.ID)] = append(d.Nodes[osm.NodeID(ch.ID)], &osm.Node{ID: osm.NodeID(ch.ID), Version: v.Ver, Visible: v.Visible, Timestamp: ts, Committed: cm, ChangesetID: osm.ChangesetID(v.CS), Lat: v.Lat, Lon: v.Lon})
			case 1:
				w := &osm.Way{ID: osm.WayID(ch.ID), Version: v.Ver, Visible: v.Visible, Timestamp: ts, Committed: cm, ChangesetID: osm.ChangesetID(v.CS)}
				nodes := osm.WayNodes{{ID: 9001}, {ID: 9002}, {ID: 9003}}
				if c.PolygonRel {
					// located nodes, a different place per way: as outer/inner
					// members of a multipolygon parent the ways get an orientation
					x := float64(ch.ID) * 3
					nodes = osm.WayNodes{{ID: 9001, Version: 1, Lon: x + 1, Lat: 1}, {ID: 9002, Version: 1, Lon: x + 2, Lat: 1}, {ID: 9003, Version: 1, Lon: x + 1, Lat: 2}}
				}
				if v.Rev {
					nodes[0], nodes[2] = nodes[2], nodes[0]
				}
				w.Nodes = nodes
				d.Ways[w.ID] = append(d.Ways[w.ID], w)
			default:
				r := &osm.Relation{ID: osm.RelationID(ch.ID), Version: v.Ver, Visible: v.Visible, Timestamp: ts, Committed: cm, ChangesetID: osm.ChangesetID(v.CS)}
				d.Relations[r.ID] = append(d.Relations[r.ID], r)
			}
		}
	}
	return d
}

const PreAnnotatedVersion = 77

// BuildWays builds the parent versions as ways (children must all be nodes).
func (c *Case) BuildWays() osm.Ways {
	var out osm.Ways
	for _, p := range c.Parents {
		ts, cm := c.stamp(p.At)
		w := &osm.Way{ID: 1, Version: p.Ver, Visible: p.Visible, Timestamp: ts, Committed: cm, ChangesetID: osm.ChangesetID(p.CS)}
		for j, ci := range p.Refs {
			wn := osm.WayNode{ID: osm.NodeID(c.Children[ci].ID)}
			if j < len(p.PreAnn) && p.PreAnn[j] {
				wn.Version = PreAnnotatedVersion
			}
			w.Nodes = append(w.Nodes, wn)
		}
		out = append(out, w)
	}
	if c.StaleUpdates {
		stale := staleUpdates()
		for _, w := range out {
			w.Updates = stale
		}
	}
	return out
}

// staleUpdates is what an earlier annotation pass might have left behind.
func staleUpdates() osm.Updates {
	old := time.Date(2001, 2, 3, 4, 5, 6, 0, time.UTC)
	u := make(osm.Updates, 3, 64)
	for i := range u {
		u[i] = osm.Update{Index: 0, Version: 9000 + i, Timestamp: old.Add(time.Duration(i) * time.Hour), ChangesetID: 77}
	}
	return u
}

// BuildRelations builds the parent versions as (non-polygon) relations.
func (c *Case) BuildRelations() osm.Relations {
	var out osm.Relations
	for _, p := range c.Parents {
		ts, cm := c.stamp(p.At)
		r := &osm.Relation{ID: 1, Version: p.Ver, Visible: p.Visible, Timestamp: ts, Committed: cm, ChangesetID: osm.ChangesetID(p.CS), Tags: osm.Tags{{Key: "type", Value: "route"}}}
		if c.PolygonRel {
			r.Tags = osm.Tags{{Key: "type", Value: "multipolygon"}}
		}
		for j, ci := range p.Refs {
			ch := c.Children[ci]
			m := osm.Member{Type: []osm.Type{osm.TypeNode, osm.TypeWay, osm.TypeRelation}[ch.Kind], Ref: ch.ID, Role: fmt.Sprintf("r%d", j)}
			if c.PolygonRel && ch.Kind == 1 {
				m.Role = []string{"outer", "inner"}[j%2]
			}
			if j < len(p.PreAnn) && p.PreAnn[j] {
				m.Version = PreAnnotatedVersion
			}
			r.Members = append(r.Members, m)
		}
		out = append(out, r)
	}
	if c.StaleUpdates {
		stale := staleUpdates()
		for _, r := range out {
			r.Updates = stale
		}
	}
	return out
}

// Opts steers Gen.
type Opts struct {
	Regime      int
	ManyUpdates bool // C12: many child versions per parent, same-second clusters
	Free        bool // Pre regime: no window discipline (several child versions inside one threshold window, parents arbitrarily close); only metamorphic relations are judged on such cases
	NoErrors    bool // only consistent histories (no deletions, nothing missing)
	Faults      bool // one case in eight: the data source fails (not a not-found error) for one child
}

func coord(t *rapid.T, l string) float64 {
	return float64(rapid.IntRange(-8000000, 8000000).Draw(t, l)) / 1e5
}

// Gen draws a case.
func Gen(t *rapid.T, o Opts) Case {
	c := Case{Regime: o.Regime, ParentIsWay: rapid.Bool().Draw(t, "parentIsWay")}
	if o.Regime == Commit {
		c.Eps = rapid.SampledFrom([]int{0, 1, 5, 1800}).Draw(t, "eps")
		genCommit(t, &c, o)
	} else {
		c.Eps = rapid.SampledFrom([]int{1, 2, 5, 60, 1800, 7200}).Draw(t, "eps")
		c.LateBase = rapid.IntRange(0, 2).Draw(t, "lateBase") == 0
		if o.Free {
			genPreFree(t, &c)
		} else {
			genPre(t, &c, o)
		}
	}
	c.Shuffle = int64(rapid.IntRange(0, 1000).Draw(t, "shuffle"))
	c.PolygonRel = !c.ParentIsWay && rapid.IntRange(0, 2).Draw(t, "polygonRel") == 0
	c.AsChildren = rapid.IntRange(0, 3).Draw(t, "asChildren") == 0
	if !c.ParentIsWay && rapid.IntRange(0, 2).Draw(t, "sharedIDs") == 0 {
		// ids are unique per kind only: node/1, way/1 and relation/1 are three
		// different elements
		next := [3]int64{}
		for i := range c.Children {
			k := c.Children[i].Kind
			next[k]++
			c.Children[i].ID = next[k]
		}
		c.SharedIDs = true
	}
	c.StaleUpdates = rapid.IntRange(0, 3).Draw(t, "staleUpdates") == 0
	if o.Faults && len(c.Children) > 0 && rapid.IntRange(0, 7).Draw(t, "fault") == 0 {
		c.FailChild = rapid.IntRange(1, len(c.Children)).Draw(t, "failChild")
	}
	return c
}

func genCommit(t *rapid.T, c *Case, o Opts) {
	c.TickMS = rapid.SampledFrom([]int{0, 0, 250, 100}).Draw(t, "tickMS")
	nchild := rapid.IntRange(1, 5).Draw(t, "nchild")
	if o.ManyUpdates {
		nchild = rapid.IntRange(3, 8).Draw(t, "nchildMany")
	}
	horizon := 30
	for i := 0; i < nchild; i++ {
		ch := Child{ID: int64(i + 1)}
		if !c.ParentIsWay {
			ch.Kind = rapid.IntRange(0, 2).Draw(t, "kind")
		}
		if !o.NoErrors && rapid.IntRange(0, 11).Draw(t, "missing") == 0 {
			ch.Missing = true
		}
		nv := rapid.IntRange(1, 8).Draw(t, "nv")
		if o.ManyUpdates {
			nv = rapid.IntRange(6, 12).Draw(t, "nvMany")
		}
		at := rapid.IntRange(0, 6).Draw(t, "at0")
		if o.ManyUpdates {
			at = rapid.IntRange(0, 2).Draw(t, "at0Many")
		}
		ver := 0
		for v := 0; v < nv; v++ {
			ver += rapid.SampledFrom([]int{1, 1, 1, 2, 3}).Draw(t, "dv")
			// same-second clusters are frequent on purpose
			at += rapid.SampledFrom([]int{0, 0, 1, 1, 2, 4}).Draw(t, "dt")
			vis := true
			if !o.NoErrors && v > 0 && rapid.IntRange(0, 7).Draw(t, "del") == 0 {
				vis = false
			}
			cv := CV{Ver: ver, At: at, Visible: vis, CS: int64(rapid.IntRange(1, 6).Draw(t, "cs")), Rev: rapid.Bool().Draw(t, "rev"), Zone: rapid.SampledFrom([]int{0, 0, 1, 2, 3}).Draw(t, "zone")}
			if ch.Kind == 0 {
				cv.Lat, cv.Lon = coord(t, "lat"), coord(t, "lon")
			}
			ch.Versions = append(ch.Versions, cv)
		}
		if at > horizon {
			horizon = at
		}
		c.Children = append(c.Children, ch)
	}
	np := rapid.IntRange(1, 5).Draw(t, "np")
	pat := rapid.IntRange(0, 8).Draw(t, "pat0")
	if o.ManyUpdates {
		np = rapid.IntRange(1, 3).Draw(t, "npMany")
		pat = rapid.IntRange(2, 4).Draw(t, "pat0Many") // after every child exists (at0 <= 2)
	}
	for p := 0; p < np; p++ {
		pat += rapid.SampledFrom([]int{0, 1, 2, 3, 5, 8}).Draw(t, "dpt")
		pv := PV{Ver: p + 1 + rapid.IntRange(0, 1).Draw(t, "pgap")*p, At: pat, Visible: true, CS: int64(rapid.IntRange(1, 6).Draw(t, "pcs"))}
		if p > 0 && pv.Ver <= c.Parents[p-1].Ver {
			pv.Ver = c.Parents[p-1].Ver + 1
		}
		if p > 0 && rapid.IntRange(0, 7).Draw(t, "pdel") == 0 {
			pv.Visible = false
		}
		if pv.Visible {
			nn := rapid.IntRange(1, 5).Draw(t, "nrefs")
			if o.ManyUpdates {
				nn = rapid.IntRange(3, 8).Draw(t, "nrefsMany")
			}
			for i := 0; i < nn; i++ {
				pv.Refs = append(pv.Refs, rapid.IntRange(0, nchild-1).Draw(t, "ref"))
				pv.PreAnn = append(pv.PreAnn, false)
			}
		}
		c.Parents = append(c.Parents, pv)
	}
	if !o.NoErrors {
		c.IgnoreInconsistency = rapid.IntRange(0, 3).Draw(t, "ignoreInconsistency") == 0
		c.IgnoreMissing = rapid.IntRange(0, 3).Draw(t, "ignoreMissing") == 0
	}
	if !o.ManyUpdates && rapid.IntRange(0, 4).Draw(t, "filter") == 0 {
		c.Reject = make([]bool, nchild)
		for i := range c.Reject {
			c.Reject[i] = rapid.Bool().Draw(t, "reject")
		}
		for pi := range c.Parents {
			for j := range c.Parents[pi].PreAnn {
				c.Parents[pi].PreAnn[j] = rapid.Bool().Draw(t, "preann")
			}
		}
	}
}

func genPre(t *rapid.T, c *Case, o Opts) {
	eps := c.Eps
	np := rapid.IntRange(1, 4).Draw(t, "np")
	T := make([]int, np)
	cur := 10*eps + 10
	for i := range T {
		cur += 2*eps + 2 + rapid.IntRange(0, 6).Draw(t, "gap")*(eps/3+1)
		T[i] = cur
	}
	pcs := func(i int) int64 { return int64(100 + i) }
	inWindow := func(ts int) bool {
		for _, x := range T {
			if ts >= x-eps && ts <= x+eps {
				return true
			}
		}
		return false
	}
	end := T[np-1] + 3*eps + 10
	nchild := rapid.IntRange(1, 4).Draw(t, "nchild")
	if o.ManyUpdates {
		nchild = rapid.IntRange(3, 6).Draw(t, "nchildMany")
	}
	for ci := 0; ci < nchild; ci++ {
		ch := Child{ID: int64(ci + 1)}
		if !c.ParentIsWay {
			ch.Kind = rapid.IntRange(0, 2).Draw(t, "kind")
		}
		type ev struct {
			ts int
			cs int64
		}
		evs := []ev{{ts: rapid.IntRange(0, 5).Draw(t, "t0"), cs: 1}}
		nf := rapid.IntRange(0, 6).Draw(t, "nfree")
		if o.ManyUpdates {
			nf = rapid.IntRange(6, 14).Draw(t, "nfreeMany")
		}
		for k := 0; k < nf; k++ {
			ts := rapid.IntRange(6, end).Draw(t, "fts")
			if inWindow(ts) {
				continue
			}
			evs = append(evs, ev{ts: ts, cs: int64(rapid.IntRange(1, 3).Draw(t, "fcs"))})
		}
		for i := range T {
			switch rapid.IntRange(0, 3).Draw(t, "grp") {
			case 1: // backward, inside the window, any changeset
				evs = append(evs, ev{ts: T[i] - rapid.IntRange(0, eps).Draw(t, "b"), cs: int64(rapid.IntRange(1, 3).Draw(t, "gcs"))})
			case 2: // forward, same changeset as the parent: belongs to the parent version
				evs = append(evs, ev{ts: T[i] + rapid.IntRange(1, eps).Draw(t, "f"), cs: pcs(i)})
			case 3: // after, inside the window, another changeset: stays an update
				evs = append(evs, ev{ts: T[i] + rapid.IntRange(1, eps).Draw(t, "a"), cs: 7})
			}
		}
		// versions in time order; equal timestamps keep insertion order
		for i := 1; i < len(evs); i++ {
			for j := i; j > 0 && evs[j].ts < evs[j-1].ts; j-- {
				evs[j], evs[j-1] = evs[j-1], evs[j]
			}
		}
		ver := 0
		for _, e := range evs {
			ver += rapid.SampledFrom([]int{1, 1, 2}).Draw(t, "dv")
			cv := CV{Ver: ver, At: e.ts, Visible: true, CS: e.cs, Rev: rapid.Bool().Draw(t, "rev"), Zone: rapid.SampledFrom([]int{0, 0, 1, 2, 3}).Draw(t, "zone")}
			if ch.Kind == 0 {
				cv.Lat, cv.Lon = coord(t, "lat"), coord(t, "lon")
			}
			ch.Versions = append(ch.Versions, cv)
		}
		c.Children = append(c.Children, ch)
	}
	for i := range T {
		pv := PV{Ver: i + 1, At: T[i], Visible: true, CS: pcs(i)}
		nn := rapid.IntRange(1, 4).Draw(t, "nrefs")
		for k := 0; k < nn; k++ {
			pv.Refs = append(pv.Refs, rapid.IntRange(0, nchild-1).Draw(t, "ref"))
			pv.PreAnn = append(pv.PreAnn, false)
		}
		c.Parents = append(c.Parents, pv)
	}
}

// genPreFree draws pre-commit histories without the window discipline of
// genPre: the answer then depends on documented-but-unstated tie rules, so only
// relations that hold for any rule are judged on them.
func genPreFree(t *rapid.T, c *Case) {
	eps := c.Eps
	np := rapid.IntRange(2, 4).Draw(t, "np")
	T := make([]int, np)
	cur := 10
	for i := range T {
		cur += 1 + rapid.IntRange(0, 3*eps).Draw(t, "gap")
		T[i] = cur
	}
	end := T[np-1] + 2*eps + 5
	nchild := rapid.IntRange(1, 4).Draw(t, "nchild")
	for ci := 0; ci < nchild; ci++ {
		ch := Child{ID: int64(ci + 1)}
		if !c.ParentIsWay {
			ch.Kind = rapid.IntRange(0, 2).Draw(t, "kind")
		}
		times := []int{rapid.IntRange(0, 5).Draw(t, "t0")}
		n := rapid.IntRange(0, 8).Draw(t, "nv")
		for k := 0; k < n; k++ {
			if rapid.Bool().Draw(t, "near") {
				// near a parent version: inside its threshold window
				ti := T[rapid.IntRange(0, np-1).Draw(t, "of")]
				times = append(times, ti+rapid.IntRange(-eps, eps).Draw(t, "off"))
			} else {
				times = append(times, rapid.IntRange(6, end).Draw(t, "ts"))
			}
		}
		for i := 1; i < len(times); i++ {
			for j := i; j > 0 && times[j] < times[j-1]; j-- {
				times[j], times[j-1] = times[j-1], times[j]
			}
		}
		ver := 0
		for _, ts := range times {
			if ts < 0 {
				ts = 0
			}
			ver++
			cv := CV{Ver: ver, At: ts, Visible: true, CS: rapid.SampledFrom([]int64{1, 2, 100, 101, 102, 103}).Draw(t, "cs"), Rev: rapid.Bool().Draw(t, "rev")}
			if ch.Kind == 0 {
				cv.Lat, cv.Lon = coord(t, "lat"), coord(t, "lon")
			}
			ch.Versions = append(ch.Versions, cv)
		}
		c.Children = append(c.Children, ch)
	}
	for i := range T {
		pv := PV{Ver: i + 1, At: T[i], Visible: true, CS: int64(100 + i)}
		nn := rapid.IntRange(1, 4).Draw(t, "nrefs")
		for k := 0; k < nn; k++ {
			pv.Refs = append(pv.Refs, rapid.IntRange(0, nchild-1).Draw(t, "ref"))
			pv.PreAnn = append(pv.PreAnn, false)
		}
		c.Parents = append(c.Parents, pv)
	}
}
