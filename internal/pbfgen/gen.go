package pbfgen

import (
	"encoding/json"

	"pgregory.net/rapid"
)

var strs = []string{"", "a", "b", "highway", "name", "é∑", "x y", "user1", "outer", "inner", "k3", "v\n", "日本語", "<&>\"'", "\t", "🙂"}

func gStr(t *rapid.T, l string) string {
	if rapid.IntRange(0, 9).Draw(t, l+"?") == 0 {
		return rapid.String().Draw(t, l)
	}
	return rapid.SampledFrom(strs).Draw(t, l)
}

func gTags(t *rapid.T, denseKeys bool) []Tag {
	n := rapid.IntRange(0, 3).Draw(t, "ntags")
	var out []Tag
	for i := 0; i < n; i++ {
		k := gStr(t, "k")
		if k == "" && denseKeys {
			k = "kk" // index 0 is the keys_vals delimiter: a dense key cannot be ""
		}
		out = append(out, Tag{k, gStr(t, "v")})
	}
	return out
}

func optI32(t *rapid.T, l string, lo, hi int32) *int32 {
	if rapid.Bool().Draw(t, l+"?") {
		v := rapid.Int32Range(lo, hi).Draw(t, l)
		return &v
	}
	return nil
}

func optI64(t *rapid.T, l string, lo, hi int64) *int64 {
	if rapid.Bool().Draw(t, l+"?") {
		v := rapid.Int64Range(lo, hi).Draw(t, l)
		return &v
	}
	return nil
}

func optStr(t *rapid.T, l string) *string {
	if rapid.Bool().Draw(t, l+"?") {
		s := gStr(t, l)
		return &s
	}
	return nil
}

// Opt steers the file generator.
type Opt struct {
	MinBlocks, MaxBlocks int
	// Big allows a rare block with hundreds to thousands of elements.
	Big bool
	// NonEmpty makes every block hold at least one element.
	NonEmpty bool
	// SeqIDs assigns ids block*1e6+i so that an id identifies its block.
	SeqIDs bool
	// NoHeader omits the header block.
	NoHeader bool
	// Small keeps blocks tiny (C06 cut enumeration).
	Small bool
	// Rich makes every block carry a dense group, a way group and a relation
	// group with every optional part present (so every damage class applies).
	Rich bool
}

// genRichBlock draws a block in which every optional part is present.
func genRichBlock(t *rapid.T) *Block {
	b := &Block{Zlib: rapid.Bool().Draw(t, "zlib")}
	i32 := func(l string, hi int32) *int32 { v := rapid.Int32Range(1, hi).Draw(t, l); return &v }
	i64 := func(l string, hi int64) *int64 { v := rapid.Int64Range(1, hi).Draw(t, l); return &v }
	str := func(l string) *string { s := rapid.SampledFrom([]string{"u", "user1", "é"}).Draw(t, l); return &s }
	tr := true
	info := func() *Info {
		return &Info{Version: i32("ver", 100), Timestamp: i64("ts", 2000000000), Changeset: i64("cs", 1000), UID: i32("uid", 1000), User: str("user"), Visible: &tr}
	}
	d := &Dense{HasInfo: true, CVersion: true, CTimestamp: true, CChangeset: true, CUID: true, CUser: true, CVisible: true, HasKeyVals: true}
	n := rapid.IntRange(1, 3).Draw(t, "nn")
	for j := 0; j < n; j++ {
		d.Nodes = append(d.Nodes, Node{ID: rapid.Int64Range(1, 1000).Draw(t, "id"), Lat: rapid.Int64Range(-1000, 1000).Draw(t, "lat"), Lon: rapid.Int64Range(-1000, 1000).Draw(t, "lon"),
			Version: 1, Timestamp: 1000, Changeset: 5, UID: 7, User: "u", Visible: true, Tags: []Tag{{"k", rapid.SampledFrom([]string{"v", "w"}).Draw(t, "tv")}}})
	}
	w := Way{ID: rapid.Int64Range(1, 1000).Draw(t, "wid"), Tags: []Tag{{"highway", "x"}}, Info: info(), Refs: []int64{1, 2}, Lats: []int64{10, 20}, Lons: []int64{30, 40}}
	r := Relation{ID: rapid.Int64Range(1, 1000).Draw(t, "rid"), Tags: []Tag{{"type", "route"}}, Info: info(),
		Members: []Member{{Type: rapid.Int32Range(0, 2).Draw(t, "mt"), Ref: 5, Role: "outer"}, {Type: 1, Ref: 6, Role: ""}}}
	b.Groups = []Group{{Dense: d}, {Ways: []Way{w}}, {Relations: []Relation{r}}}
	return b
}

func gInfo(t *rapid.T, dg int64) *Info {
	if rapid.IntRange(0, 3).Draw(t, "info?") == 0 {
		return nil
	}
	in := &Info{
		Version:   optI32(t, "ver", 0, 1<<31-1),
		Timestamp: optI64(t, "ts", 0, maxMillis/dg),
		Changeset: optI64(t, "cs", 0, 1<<50),
		UID:       optI32(t, "uid", 0, 1<<31-1),
		User:      optStr(t, "user"),
	}
	if rapid.Bool().Draw(t, "vis?") {
		b := rapid.Bool().Draw(t, "vis")
		in.Visible = &b
	}
	return in
}

func gCount(t *rapid.T, o Opt, l string) int {
	if o.Small {
		return rapid.IntRange(1, 3).Draw(t, l)
	}
	if o.Big && rapid.IntRange(0, 39).Draw(t, l+"big?") == 0 {
		return rapid.SampledFrom([]int{200, 1000, 7999, 8000, 8001, 9000}).Draw(t, l+"big")
	}
	return rapid.IntRange(1, 8).Draw(t, l)
}

func gID(t *rapid.T, l string) int64 {
	switch rapid.IntRange(0, 5).Draw(t, l+"mode") {
	case 0:
		return rapid.Int64Range(-1000, -1).Draw(t, l)
	case 1:
		return rapid.Int64Range(1<<40, 1<<62).Draw(t, l)
	}
	return rapid.Int64Range(0, 1<<40).Draw(t, l)
}

// GenBlock draws one data block.
func GenBlock(t *rapid.T, o Opt) *Block {
	if o.Rich {
		return genRichBlock(t)
	}
	b := &Block{Zlib: rapid.Bool().Draw(t, "zlib"), RawSizeOnRaw: rapid.Bool().Draw(t, "rawsize")}
	b.Granularity = optI32(t, "gran", 1, 10000)
	b.DateGranularity = optI32(t, "dgran", 1, 60000)
	b.LatOffset = optI64(t, "latoff", -1000000000, 1000000000)
	b.LonOffset = optI64(t, "lonoff", -1000000000, 1000000000)
	if rapid.IntRange(0, 3).Draw(t, "index?") == 0 {
		b.HasIndexData = true
		b.IndexData = rapid.SliceOfN(rapid.Byte(), 0, 12).Draw(t, "index")
	}
	if rapid.Bool().Draw(t, "shuffle?") {
		b.ShuffleSeed = rapid.Int64Range(1, 1<<30).Draw(t, "shuffle")
	}
	if !o.Small && rapid.IntRange(0, 4).Draw(t, "exotic?") == 0 {
		b.Exotic = rapid.Int64Range(1, 1<<30).Draw(t, "exotic")
	}
	nx := rapid.IntRange(0, 2).Draw(t, "nextra")
	for i := 0; i < nx; i++ {
		b.ExtraStrings = append(b.ExtraStrings, gStr(t, "extra"))
	}
	g, dg := b.gran(), b.dgran()
	rawLat := func(l string) int64 {
		nano := rapid.Int64Range(-90000000000, 90000000000).Draw(t, l)
		return (nano - b.latOff()) / g
	}
	rawLon := func(l string) int64 {
		nano := rapid.Int64Range(-180000000000, 180000000000).Draw(t, l)
		return (nano - b.lonOff()) / g
	}
	lo := 0
	if o.NonEmpty {
		lo = 1
	}
	hi := 3
	if o.Small {
		hi = 2
	}
	ng := rapid.IntRange(lo, hi).Draw(t, "ngroups")
	for i := 0; i < ng; i++ {
		var grp Group
		kind := rapid.IntRange(0, 6).Draw(t, "kind")
		if o.NonEmpty && i == 0 && kind == 6 {
			kind = 0
		}
		switch kind {
		case 0, 1, 2:
			d := &Dense{HasInfo: rapid.IntRange(0, 3).Draw(t, "hasinfo") != 0}
			d.CVersion, d.CTimestamp, d.CChangeset = rapid.Bool().Draw(t, "cv"), rapid.Bool().Draw(t, "ct"), rapid.Bool().Draw(t, "cc")
			d.CUID, d.CUser, d.CVisible = rapid.Bool().Draw(t, "cu"), rapid.Bool().Draw(t, "cus"), rapid.Bool().Draw(t, "cvis")
			n := gCount(t, o, "nn")
			tmpl := n
			if tmpl > 8 {
				tmpl = 8
			}
			for j := 0; j < tmpl; j++ {
				nd := Node{ID: gID(t, "id"), Lat: rawLat("lat"), Lon: rawLon("lon"),
					Version: rapid.Int32Range(0, 1<<31-1).Draw(t, "v"), Timestamp: rapid.Int64Range(0, maxMillis/dg).Draw(t, "ts"), Changeset: rapid.Int64Range(0, 1<<50).Draw(t, "cs"),
					UID: rapid.Int32Range(0, 1<<31-1).Draw(t, "uid"), User: gStr(t, "user"), Visible: rapid.Bool().Draw(t, "vis")}
				if rapid.Bool().Draw(t, "tags?") {
					nd.Tags = gTags(t, true)
				}
				d.Nodes = append(d.Nodes, nd)
			}
			for j := tmpl; j < n; j++ { // cheap expansion of the templates
				nd := d.Nodes[j%tmpl]
				nd.ID += int64(j)
				nd.Version = int32(j % 70000)
				nd.Tags = append([]Tag(nil), nd.Tags...)
				d.Nodes = append(d.Nodes, nd)
			}
			d.HasKeyVals = rapid.Bool().Draw(t, "kv")
			grp.Dense = d
		case 3, 4:
			n := gCount(t, o, "nw")
			tmpl := n
			if tmpl > 6 {
				tmpl = 6
			}
			for j := 0; j < tmpl; j++ {
				w := Way{ID: gID(t, "id"), Tags: gTags(t, false), Info: gInfo(t, dg)}
				nr := rapid.IntRange(0, 5).Draw(t, "nrefs")
				loc := rapid.Bool().Draw(t, "loc")
				for k := 0; k < nr; k++ {
					w.Refs = append(w.Refs, gID(t, "ref"))
					if loc {
						w.Lats = append(w.Lats, rawLat("wlat"))
						w.Lons = append(w.Lons, rawLon("wlon"))
					}
				}
				grp.Ways = append(grp.Ways, w)
			}
			for j := tmpl; j < n; j++ {
				w := grp.Ways[j%tmpl]
				w.ID += int64(j)
				grp.Ways = append(grp.Ways, w)
			}
		case 5:
			n := gCount(t, o, "nr")
			tmpl := n
			if tmpl > 6 {
				tmpl = 6
			}
			for j := 0; j < tmpl; j++ {
				r := Relation{ID: gID(t, "id"), Tags: gTags(t, false), Info: gInfo(t, dg)}
				nm := rapid.IntRange(0, 4).Draw(t, "nm")
				for k := 0; k < nm; k++ {
					r.Members = append(r.Members, Member{Type: rapid.Int32Range(0, 2).Draw(t, "mt"), Ref: gID(t, "mref"), Role: gStr(t, "role")})
				}
				grp.Relations = append(grp.Relations, r)
			}
			for j := tmpl; j < n; j++ {
				r := grp.Relations[j%tmpl]
				r.ID += int64(j)
				grp.Relations = append(grp.Relations, r)
			}
		case 6:
			grp.Changesets = []int64{rapid.Int64Range(0, 1<<40).Draw(t, "csid")}
		}
		b.Groups = append(b.Groups, grp)
	}
	b.Normalize()
	return b
}

// Clone deep-copies a block.
func (b *Block) Clone() *Block {
	buf, err := json.Marshal(b)
	if err != nil {
		panic(err)
	}
	out := &Block{}
	if err := json.Unmarshal(buf, out); err != nil {
		panic(err)
	}
	return out
}

// Flip derives a block from prev by toggling optional parts (the stale-state
// bugs of a decoder that reuses buffers only show when neighbours differ).
func Flip(t *rapid.T, prev *Block) *Block {
	b := prev.Clone()
	b.Zlib = rapid.Bool().Draw(t, "fzlib")
	n := rapid.IntRange(1, 3).Draw(t, "nflips")
	for i := 0; i < n; i++ {
		switch rapid.IntRange(0, 13).Draw(t, "flip") {
		case 0:
			b.Granularity = nil
		case 1:
			b.LatOffset, b.LonOffset = nil, nil
		case 2:
			b.DateGranularity = nil
		case 3, 4, 5, 6, 7, 8, 9:
			for gi := range b.Groups {
				if d := b.Groups[gi].Dense; d != nil {
					switch rapid.IntRange(0, 7).Draw(t, "dflip") {
					case 0:
						d.HasInfo = !d.HasInfo
					case 1:
						d.CVersion = !d.CVersion
					case 2:
						d.CTimestamp = !d.CTimestamp
					case 3:
						d.CChangeset = !d.CChangeset
					case 4:
						d.CUID = !d.CUID
					case 5:
						d.CUser = !d.CUser
					case 6:
						d.CVisible = !d.CVisible
					case 7:
						for ni := range d.Nodes {
							d.Nodes[ni].Tags = nil
						}
						d.HasKeyVals = false
					}
				}
			}
		case 10:
			for gi := range b.Groups {
				for wi := range b.Groups[gi].Ways {
					w := &b.Groups[gi].Ways[wi]
					switch rapid.IntRange(0, 3).Draw(t, "wflip") {
					case 0:
						w.Info = nil
					case 1:
						w.Tags = nil
					case 2:
						w.Lats, w.Lons = nil, nil
					case 3:
						w.Refs, w.Lats, w.Lons = nil, nil, nil
					}
				}
			}
		case 11:
			for gi := range b.Groups {
				for ri := range b.Groups[gi].Relations {
					r := &b.Groups[gi].Relations[ri]
					switch rapid.IntRange(0, 2).Draw(t, "rflip") {
					case 0:
						r.Info = nil
					case 1:
						r.Tags = nil
					case 2:
						r.Members = nil
					}
				}
			}
		case 12:
			for gi := range b.Groups {
				clearInfo := func(in *Info) {
					if in == nil {
						return
					}
					switch rapid.IntRange(0, 5).Draw(t, "iflip") {
					case 0:
						in.Version = nil
					case 1:
						in.Timestamp = nil
					case 2:
						in.Changeset = nil
					case 3:
						in.UID = nil
					case 4:
						in.User = nil
					case 5:
						in.Visible = nil
					}
				}
				for wi := range b.Groups[gi].Ways {
					clearInfo(b.Groups[gi].Ways[wi].Info)
				}
				for ri := range b.Groups[gi].Relations {
					clearInfo(b.Groups[gi].Relations[ri].Info)
				}
			}
		case 13:
			b.ShuffleSeed = rapid.Int64Range(1, 1<<30).Draw(t, "fshuffle")
		}
	}
	b.Normalize()
	return b
}

var features = []string{"OsmSchema-V0.6", "DenseNodes", "HistoricalInformation"}

// GenHeader draws a header block.
func GenHeader(t *rapid.T) *Header {
	h := &Header{Zlib: rapid.Bool().Draw(t, "hzlib")}
	if rapid.Bool().Draw(t, "bbox?") {
		h.HasBBox = true
		h.Left = rapid.Int64Range(-180000000000, 180000000000).Draw(t, "left")
		h.Right = rapid.Int64Range(-180000000000, 180000000000).Draw(t, "right")
		h.Top = rapid.Int64Range(-90000000000, 90000000000).Draw(t, "top")
		h.Bottom = rapid.Int64Range(-90000000000, 90000000000).Draw(t, "bottom")
	}
	for _, f := range features {
		if rapid.Bool().Draw(t, "req "+f) {
			h.Required = append(h.Required, f)
		}
	}
	no := rapid.IntRange(0, 3).Draw(t, "nopt")
	for i := 0; i < no; i++ {
		h.Optional = append(h.Optional, rapid.SampledFrom([]string{"Sort.Type_then_ID", "Has_Metadata", "LocationsOnWays", "x", "日本"}).Draw(t, "opt"))
	}
	if rapid.IntRange(0, 4).Draw(t, "hexotic?") == 0 {
		h.Exotic = rapid.Int64Range(1, 1<<30).Draw(t, "hexotic")
	}
	h.WritingProgram = optStr(t, "program")
	h.Source = optStr(t, "source")
	h.ReplTimestamp = optI64(t, "rts", 0, 4102444800)
	h.ReplSeq = optI64(t, "rseq", 0, 1<<40)
	h.ReplBaseURL = optStr(t, "rurl")
	return h
}

// GenFile draws a file.
func GenFile(t *rapid.T, o Opt) *File {
	f := &File{}
	if !o.NoHeader {
		f.Header = GenHeader(t)
	}
	nb := rapid.IntRange(o.MinBlocks, o.MaxBlocks).Draw(t, "nblocks")
	for i := 0; i < nb; i++ {
		var b *Block
		if i > 0 && !o.Rich && rapid.IntRange(0, 2).Draw(t, "flip?") != 0 {
			b = Flip(t, f.Blocks[i-1])
		} else {
			b = GenBlock(t, o)
		}
		f.Blocks = append(f.Blocks, b)
	}
	if o.SeqIDs {
		f.Renumber()
	}
	return f
}

// Renumber assigns ids block*1e6 + running index, per element kind.
func (f *File) Renumber() {
	for bi, b := range f.Blocks {
		i := int64(0)
		next := func() int64 { i++; return int64(bi+1)*1000000 + i }
		for gi := range b.Groups {
			g := &b.Groups[gi]
			if g.Dense != nil {
				for ni := range g.Dense.Nodes {
					g.Dense.Nodes[ni].ID = next()
				}
			}
			for wi := range g.Ways {
				g.Ways[wi].ID = next()
			}
			for ri := range g.Relations {
				g.Relations[ri].ID = next()
			}
		}
	}
}

// Features summarises which optional parts a block carries (for flip
// classification in evidence).
type Features struct {
	DenseInfo, CVersion, CTimestamp, CChangeset, CUID, CUser, CVisible, KeyVals bool
	HasDense, HasWays, HasRels                                                  bool
	WayInfo, WayTags, WayLoc, RelInfo, RelTags, RelMembers                      bool
	Gran, Off, DGran, Raw                                                       bool
}

func (b *Block) Features() Features {
	f := Features{Gran: b.Granularity != nil, Off: b.LatOffset != nil || b.LonOffset != nil, DGran: b.DateGranularity != nil, Raw: !b.Zlib}
	for _, g := range b.Groups {
		if d := g.Dense; d != nil {
			f.HasDense = true
			f.DenseInfo = f.DenseInfo || d.HasInfo
			f.CVersion = f.CVersion || d.HasInfo && d.CVersion
			f.CTimestamp = f.CTimestamp || d.HasInfo && d.CTimestamp
			f.CChangeset = f.CChangeset || d.HasInfo && d.CChangeset
			f.CUID = f.CUID || d.HasInfo && d.CUID
			f.CUser = f.CUser || d.HasInfo && d.CUser
			f.CVisible = f.CVisible || d.HasInfo && d.CVisible
			f.KeyVals = f.KeyVals || d.HasKeyVals
		}
		for _, w := range g.Ways {
			f.HasWays = true
			f.WayInfo = f.WayInfo || w.Info != nil
			f.WayTags = f.WayTags || len(w.Tags) > 0
			f.WayLoc = f.WayLoc || len(w.Lats) > 0
		}
		for _, r := range g.Relations {
			f.HasRels = true
			f.RelInfo = f.RelInfo || r.Info != nil
			f.RelTags = f.RelTags || len(r.Tags) > 0
			f.RelMembers = f.RelMembers || len(r.Members) > 0
		}
	}
	return f
}

// Classes returns evidence class labels of a file.
func (f *File) Classes() []string {
	var out []string
	set := map[string]bool{}
	add := func(s string) {
		if !set[s] {
			set[s] = true
			out = append(out, s)
		}
	}
	for i, b := range f.Blocks {
		cur := b.Features()
		if cur.Raw {
			add("raw-blob")
		}
		if cur.Gran || cur.Off || cur.DGran {
			add("non-default-granularity-or-offset")
		}
		if b.Exotic != 0 {
			add("non-canonical-field-order-or-unknown-fields")
		}
		if i == 0 {
			continue
		}
		prev := f.Blocks[i-1].Features()
		if prev.HasDense && cur.HasDense {
			for _, c := range []struct {
				n    string
				p, c bool
			}{{"version", prev.CVersion, cur.CVersion}, {"timestamp", prev.CTimestamp, cur.CTimestamp}, {"changeset", prev.CChangeset, cur.CChangeset},
				{"uid", prev.CUID, cur.CUID}, {"user", prev.CUser, cur.CUser}, {"visible", prev.CVisible, cur.CVisible}, {"keyvals", prev.KeyVals, cur.KeyVals}, {"denseinfo", prev.DenseInfo, cur.DenseInfo}} {
				if c.p && !c.c {
					add("absent-after-present:" + c.n)
				}
			}
		}
		if prev != cur {
			add("neighbour-blocks-differ")
		}
		if (prev.Gran && !cur.Gran) || (prev.Off && !cur.Off) || (prev.DGran && !cur.DGran) {
			add("absent-after-present:block-params")
		}
	}
	n := 0
	for _, b := range f.Blocks {
		for _, g := range b.Groups {
			if g.Dense != nil {
				n += len(g.Dense.Nodes)
			}
			n += len(g.Ways) + len(g.Relations)
		}
	}
	if n >= 200 {
		add("large-block")
	}
	return out
}

// Summary is a compact description for samples.
func (f *File) Summary() map[string]any {
	var blocks []map[string]any
	for _, b := range f.Blocks {
		m := map[string]any{"zlib": b.Zlib, "features": b.Features()}
		if b.Granularity != nil {
			m["granularity"] = *b.Granularity
		}
		if b.DateGranularity != nil {
			m["date_granularity"] = *b.DateGranularity
		}
		if b.LatOffset != nil {
			m["lat_offset"] = *b.LatOffset
		}
		n := 0
		for _, g := range b.Groups {
			if g.Dense != nil {
				n += len(g.Dense.Nodes)
			}
			n += len(g.Ways) + len(g.Relations)
		}
		m["groups"] = len(b.Groups)
		m["elements"] = n
		blocks = append(blocks, m)
		if len(blocks) >= 6 {
			break
		}
	}
	return map[string]any{"header": f.Header, "nblocks": len(f.Blocks), "blocks(first 6)": blocks}
}
