package pbfgen

import (
	"fmt"
	"math"
	"strings"
	"time"

	"github.com/paulmach/osm"
	"github.com/paulmach/osm/osmpbf"
)

const coordTol = 1e-10

var epoch = time.Unix(0, 0)

// timeEq: want zero = absent in the file; the statement only demands "zero
// metadata", so both time.Time{} and the Unix epoch are accepted for it.
func timeEq(got, want time.Time) bool {
	if want.IsZero() {
		return got.IsZero() || got.Equal(epoch)
	}
	return got.Equal(want)
}

func tagsEq(a, b osm.Tags) string {
	if len(a) != len(b) {
		return fmt.Sprintf("tags: got %d %v want %d %v", len(a), a, len(b), b)
	}
	for i := range a {
		if a[i] != b[i] {
			return fmt.Sprintf("tag %d: got %q=%q want %q=%q", i, a[i].Key, a[i].Value, b[i].Key, b[i].Value)
		}
	}
	return ""
}

func meta(field string, got, want any) string {
	return fmt.Sprintf("%s: got %v want %v", field, got, want)
}

// Diff returns "" when got equals the object the format defines (want), or a
// description of the first differing field.
func Diff(got, want osm.Object) string {
	switch y := want.(type) {
	case *osm.Node:
		x, ok := got.(*osm.Node)
		if !ok {
			return fmt.Sprintf("kind: got %T want node %d", got, y.ID)
		}
		switch {
		case x.ID != y.ID:
			return meta("id", x.ID, y.ID)
		case x.Version != y.Version:
			return meta("version", x.Version, y.Version)
		case !timeEq(x.Timestamp, y.Timestamp):
			return meta("timestamp", x.Timestamp, y.Timestamp)
		case x.ChangesetID != y.ChangesetID:
			return meta("changeset", x.ChangesetID, y.ChangesetID)
		case x.UserID != y.UserID:
			return meta("uid", x.UserID, y.UserID)
		case x.User != y.User:
			return meta("user", fmt.Sprintf("%q", x.User), fmt.Sprintf("%q", y.User))
		case x.Visible != y.Visible:
			return meta("visible", x.Visible, y.Visible)
		case math.Abs(x.Lat-y.Lat) > coordTol || math.IsNaN(x.Lat):
			return meta("lat", x.Lat, y.Lat)
		case math.Abs(x.Lon-y.Lon) > coordTol || math.IsNaN(x.Lon):
			return meta("lon", x.Lon, y.Lon)
		case x.Committed != nil:
			return "committed set"
		}
		return tagsEq(x.Tags, y.Tags)
	case *osm.Way:
		x, ok := got.(*osm.Way)
		if !ok {
			return fmt.Sprintf("kind: got %T want way %d", got, y.ID)
		}
		switch {
		case x.ID != y.ID:
			return meta("id", x.ID, y.ID)
		case x.Version != y.Version:
			return meta("version", x.Version, y.Version)
		case !timeEq(x.Timestamp, y.Timestamp):
			return meta("timestamp", x.Timestamp, y.Timestamp)
		case x.ChangesetID != y.ChangesetID:
			return meta("changeset", x.ChangesetID, y.ChangesetID)
		case x.UserID != y.UserID:
			return meta("uid", x.UserID, y.UserID)
		case x.User != y.User:
			return meta("user", fmt.Sprintf("%q", x.User), fmt.Sprintf("%q", y.User))
		case x.Visible != y.Visible:
			return meta("visible", x.Visible, y.Visible)
		case len(x.Nodes) != len(y.Nodes):
			return meta("node count", len(x.Nodes), len(y.Nodes))
		case x.Committed != nil || len(x.Updates) != 0 || x.Bounds != nil:
			return "annotation fields set"
		}
		for i := range x.Nodes {
			a, b := x.Nodes[i], y.Nodes[i]
			if a.ID != b.ID {
				return meta(fmt.Sprintf("ref %d", i), a.ID, b.ID)
			}
			if math.Abs(a.Lat-b.Lat) > coordTol || math.Abs(a.Lon-b.Lon) > coordTol {
				return meta(fmt.Sprintf("way node %d location", i), fmt.Sprint(a.Lat, ",", a.Lon), fmt.Sprint(b.Lat, ",", b.Lon))
			}
			if a.Version != 0 || a.ChangesetID != 0 {
				return meta(fmt.Sprintf("way node %d annotations", i), a, b)
			}
		}
		return tagsEq(x.Tags, y.Tags)
	case *osm.Relation:
		x, ok := got.(*osm.Relation)
		if !ok {
			return fmt.Sprintf("kind: got %T want relation %d", got, y.ID)
		}
		switch {
		case x.ID != y.ID:
			return meta("id", x.ID, y.ID)
		case x.Version != y.Version:
			return meta("version", x.Version, y.Version)
		case !timeEq(x.Timestamp, y.Timestamp):
			return meta("timestamp", x.Timestamp, y.Timestamp)
		case x.ChangesetID != y.ChangesetID:
			return meta("changeset", x.ChangesetID, y.ChangesetID)
		case x.UserID != y.UserID:
			return meta("uid", x.UserID, y.UserID)
		case x.User != y.User:
			return meta("user", fmt.Sprintf("%q", x.User), fmt.Sprintf("%q", y.User))
		case x.Visible != y.Visible:
			return meta("visible", x.Visible, y.Visible)
		case len(x.Members) != len(y.Members):
			return meta("member count", len(x.Members), len(y.Members))
		case x.Committed != nil || len(x.Updates) != 0 || x.Bounds != nil:
			return "annotation fields set"
		}
		for i := range x.Members {
			a, b := x.Members[i], y.Members[i]
			if a.Type != b.Type || a.Ref != b.Ref || a.Role != b.Role {
				return meta(fmt.Sprintf("member %d", i), fmt.Sprintf("%v/%d %q", a.Type, a.Ref, a.Role), fmt.Sprintf("%v/%d %q", b.Type, b.Ref, b.Role))
			}
			if a.Version != 0 || a.ChangesetID != 0 || a.Lat != 0 || a.Lon != 0 || a.Orientation != 0 || len(a.Nodes) != 0 {
				return meta(fmt.Sprintf("member %d annotations", i), a, b)
			}
		}
		return tagsEq(x.Tags, y.Tags)
	}
	return fmt.Sprintf("unexpected expected type %T", want)
}

// DiffSeq compares sequences; "" when equal.
func DiffSeq(got, want []osm.Object) string {
	n := len(got)
	if len(want) < n {
		n = len(want)
	}
	for i := 0; i < n; i++ {
		if d := Diff(got[i], want[i]); d != "" {
			return fmt.Sprintf("object %d (%s): %s", i, Name(want[i]), d)
		}
	}
	if len(got) != len(want) {
		return fmt.Sprintf("got %d objects, want %d", len(got), len(want))
	}
	return ""
}

// Snap is a deep, value-only rendering of an object, used to detect that a
// returned object was modified after it was handed out.
func Snap(o osm.Object) string {
	var sb strings.Builder
	switch x := o.(type) {
	case *osm.Node:
		fmt.Fprintf(&sb, "n %d v%d %d cs%d u%d %q vis%v %.12f %.12f", x.ID, x.Version, x.Timestamp.UnixNano(), x.ChangesetID, x.UserID, x.User, x.Visible, x.Lat, x.Lon)
		for _, t := range x.Tags {
			fmt.Fprintf(&sb, " %q=%q", t.Key, t.Value)
		}
	case *osm.Way:
		fmt.Fprintf(&sb, "w %d v%d %d cs%d u%d %q vis%v", x.ID, x.Version, x.Timestamp.UnixNano(), x.ChangesetID, x.UserID, x.User, x.Visible)
		for _, t := range x.Tags {
			fmt.Fprintf(&sb, " %q=%q", t.Key, t.Value)
		}
		for _, n := range x.Nodes {
			fmt.Fprintf(&sb, " [%d %.12f %.12f %d %d]", n.ID, n.Lat, n.Lon, n.Version, n.ChangesetID)
		}
	case *osm.Relation:
		fmt.Fprintf(&sb, "r %d v%d %d cs%d u%d %q vis%v", x.ID, x.Version, x.Timestamp.UnixNano(), x.ChangesetID, x.UserID, x.User, x.Visible)
		for _, t := range x.Tags {
			fmt.Fprintf(&sb, " %q=%q", t.Key, t.Value)
		}
		for _, m := range x.Members {
			fmt.Fprintf(&sb, " [%s %d %q %d]", m.Type, m.Ref, m.Role, m.Version)
		}
	default:
		fmt.Fprintf(&sb, "%T %+v", o, o)
	}
	return sb.String()
}

func strsEq(a, b []string) bool {
	if len(a) != len(b) {
		return false
	}
	for i := range a {
		if a[i] != b[i] {
			return false
		}
	}
	return true
}

// DiffHeader compares a decoded header with the model's.
func DiffHeader(got, want *osmpbf.Header) string {
	if got == nil {
		return "header is nil"
	}
	if (got.Bounds == nil) != (want.Bounds == nil) {
		return fmt.Sprintf("bounds presence: got %v want %v", got.Bounds, want.Bounds)
	}
	if want.Bounds != nil {
		g, w := got.Bounds, want.Bounds
		if math.Abs(g.MinLat-w.MinLat) > coordTol || math.Abs(g.MaxLat-w.MaxLat) > coordTol || math.Abs(g.MinLon-w.MinLon) > coordTol || math.Abs(g.MaxLon-w.MaxLon) > coordTol {
			return fmt.Sprintf("bounds: got %+v want %+v", *g, *w)
		}
	}
	switch {
	case !strsEq(got.RequiredFeatures, want.RequiredFeatures):
		return fmt.Sprintf("required features: got %q want %q", got.RequiredFeatures, want.RequiredFeatures)
	case !strsEq(got.OptionalFeatures, want.OptionalFeatures):
		return fmt.Sprintf("optional features: got %q want %q", got.OptionalFeatures, want.OptionalFeatures)
	case got.WritingProgram != want.WritingProgram:
		return fmt.Sprintf("writingprogram: got %q want %q", got.WritingProgram, want.WritingProgram)
	case got.Source != want.Source:
		return fmt.Sprintf("source: got %q want %q", got.Source, want.Source)
	case !timeEq(got.ReplicationTimestamp, want.ReplicationTimestamp):
		return fmt.Sprintf("replication timestamp: got %v want %v", got.ReplicationTimestamp, want.ReplicationTimestamp)
	case got.ReplicationSeqNum != want.ReplicationSeqNum:
		return fmt.Sprintf("replication sequence: got %d want %d", got.ReplicationSeqNum, want.ReplicationSeqNum)
	case got.ReplicationBaseURL != want.ReplicationBaseURL:
		return fmt.Sprintf("replication base url: got %q want %q", got.ReplicationBaseURL, want.ReplicationBaseURL)
	}
	return ""
}

// Name renders kind/id:version without going through the library's id packing
// (which cannot represent the full int64 id range the format allows).
func Name(o osm.Object) string {
	switch x := o.(type) {
	case *osm.Node:
		return fmt.Sprintf("node/%d:%d", x.ID, x.Version)
	case *osm.Way:
		return fmt.Sprintf("way/%d:%d", x.ID, x.Version)
	case *osm.Relation:
		return fmt.Sprintf("relation/%d:%d", x.ID, x.Version)
	}
	return fmt.Sprintf("%T", o)
}

// AppendIndependence checks that decoded objects do not share memory: it
// appends marker entries to every slice of every object (in the order given)
// and then requires each object to read exactly as before plus its own
// markers. An append to one returned object must never show up in another.
// The objects are modified (markers stay appended). Returns "" or a
// description of the first difference.
func AppendIndependence(objs []osm.Object) string {
	before := make([]string, len(objs))
	for i, o := range objs {
		before[i] = Snap(o)
	}
	for _, o := range objs {
		switch x := o.(type) {
		case *osm.Node:
			x.Tags = append(x.Tags, osm.Tag{Key: "~marker", Value: "~n"})
		case *osm.Way:
			x.Tags = append(x.Tags, osm.Tag{Key: "~marker", Value: "~w"})
			x.Nodes = append(x.Nodes, osm.WayNode{ID: -77}, osm.WayNode{ID: -78})
		case *osm.Relation:
			x.Tags = append(x.Tags, osm.Tag{Key: "~marker", Value: "~r"})
			x.Members = append(x.Members, osm.Member{Type: osm.TypeNode, Ref: -79, Role: "~marker"})
		}
	}
	for i, o := range objs {
		// strip the object's own markers again (without touching memory)
		var now string
		switch x := o.(type) {
		case *osm.Node:
			c := *x
			c.Tags = c.Tags[:len(c.Tags)-1]
			now = Snap(&c)
		case *osm.Way:
			c := *x
			c.Tags = c.Tags[:len(c.Tags)-1]
			c.Nodes = c.Nodes[:len(c.Nodes)-2]
			now = Snap(&c)
		case *osm.Relation:
			c := *x
			c.Tags = c.Tags[:len(c.Tags)-1]
			c.Members = c.Members[:len(c.Members)-1]
			now = Snap(&c)
		default:
			now = Snap(o)
		}
		if now != before[i] {
			return fmt.Sprintf("object %d changed when marker entries were appended to the slices of the returned objects (shared memory between results):\n was %s\n now %s", i, before[i], now)
		}
	}
	return ""
}
