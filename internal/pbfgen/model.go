// Package pbfgen is an independent model of OSM PBF files: a file model, a
// protobuf wire encoder written on protowire (it shares no code with the
// library under test), the objects the format defines for a model, and rapid
// generators. It is the generator and the oracle of C01, C02, C06-C09.
package pbfgen

import (
	"bytes"
	"compress/zlib"
	"encoding/binary"
	"math/rand"
	"time"

	"github.com/paulmach/osm"
	"github.com/paulmach/osm/osmpbf"
	"google.golang.org/protobuf/encoding/protowire"
)

const maxMillis = 4102444800000 // 2100-01-01 in ms

// W is a tiny protobuf wire writer. B is the canonical encoding; the field
// boundaries are remembered so that Out can emit an equivalent encoding with
// the fields in another order and with unknown fields mixed in.
type W struct {
	B      []byte
	ends   []int
	fields []int
}

func (w *W) mark(f int) {
	w.ends = append(w.ends, len(w.B))
	w.fields = append(w.fields, f)
}

func (w *W) Varint(f int, v uint64) {
	w.B = protowire.AppendTag(w.B, protowire.Number(f), protowire.VarintType)
	w.B = protowire.AppendVarint(w.B, v)
	w.mark(f)
}
func (w *W) Bytes(f int, v []byte) {
	w.B = protowire.AppendTag(w.B, protowire.Number(f), protowire.BytesType)
	w.B = protowire.AppendBytes(w.B, v)
	w.mark(f)
}

// Out returns the message bytes. With rnd == nil that is the canonical
// encoding. Otherwise the fields are emitted in a random order that keeps the
// relative order of fields with the same number (repeated fields are ordered
// lists), and unknown fields 40 (varint) / 41 (bytes) may be mixed in: a
// conforming protobuf reader decodes the same message.
func (w *W) Out(rnd *rand.Rand) []byte {
	if rnd == nil || len(w.ends) == 0 {
		return w.B
	}
	type chunk struct {
		f int
		b []byte
	}
	var chunks []chunk
	start := 0
	for i, e := range w.ends {
		chunks = append(chunks, chunk{w.fields[i], w.B[start:e]})
		start = e
	}
	if rnd.Intn(2) == 0 {
		var u W
		u.Varint(40, uint64(rnd.Intn(1000)))
		chunks = append(chunks, chunk{40, u.B})
	}
	if rnd.Intn(3) == 0 {
		var u W
		u.Bytes(41, []byte("ignored by readers"))
		chunks = append(chunks, chunk{41, u.B})
	}
	// positions: a permutation of the field numbers; each number keeps its chunks in order
	order := make([]int, len(chunks))
	for i, c := range chunks {
		order[i] = c.f
	}
	rnd.Shuffle(len(order), func(i, j int) { order[i], order[j] = order[j], order[i] })
	next := map[int][]int{}
	for i, c := range chunks {
		next[c.f] = append(next[c.f], i)
	}
	var out []byte
	for _, f := range order {
		i := next[f][0]
		next[f] = next[f][1:]
		out = append(out, chunks[i].b...)
	}
	return out
}
func (w *W) Packed(f int, vs []uint64) {
	var p []byte
	for _, v := range vs {
		p = protowire.AppendVarint(p, v)
	}
	w.Bytes(f, p)
}

// ZZ is zig-zag encoding.
func ZZ(v int64) uint64 { return protowire.EncodeZigZag(v) }

type Tag struct{ K, V string }

// Info of a way or relation; nil pointer = field absent.
type Info struct {
	Version   *int32
	Timestamp *int64 // raw units of date_granularity
	Changeset *int64
	UID       *int32
	User      *string
	Visible   *bool
}

// Node of a dense group; the metadata values are only encoded when the
// corresponding column of the group is present.
type Node struct {
	ID        int64
	Lat, Lon  int64 // raw units
	Tags      []Tag
	Version   int32
	Timestamp int64
	Changeset int64
	UID       int32
	User      string
	Visible   bool
}

type Way struct {
	ID   int64
	Tags []Tag
	Info *Info
	Refs []int64
	Lats []int64 // nil => no locations
	Lons []int64
}

type Member struct {
	Type int32 // 0 node, 1 way, 2 relation
	Ref  int64
	Role string
}

type Relation struct {
	ID      int64
	Tags    []Tag
	Info    *Info
	Members []Member
}

type Dense struct {
	Nodes                                                   []Node
	HasInfo                                                 bool
	CVersion, CTimestamp, CChangeset, CUID, CUser, CVisible bool
	HasKeyVals                                              bool // forced true by Normalize if any node has tags
}

// Group holds exactly one kind (as the format requires).
type Group struct {
	Dense      *Dense
	Ways       []Way
	Relations  []Relation
	Changesets []int64
}

type Block struct {
	Granularity     *int32
	LatOffset       *int64
	LonOffset       *int64
	DateGranularity *int32
	Zlib            bool
	RawSizeOnRaw    bool
	HasIndexData    bool
	IndexData       []byte
	Groups          []Group
	ExtraStrings    []string // unused string-table entries
	ShuffleSeed     int64    // string table order (entry 0 is always "")
	Exotic          int64    // != 0: non-canonical but valid wire encoding (field order, unknown fields, empty packed fields)
}

type Header struct {
	Exotic                   int64 // != 0: shuffled field order and unknown fields
	HasBBox                  bool
	Left, Right, Top, Bottom int64 // nanodegrees
	Required                 []string
	Optional                 []string
	WritingProgram           *string
	Source                   *string
	ReplTimestamp            *int64
	ReplSeq                  *int64
	ReplBaseURL              *string
	Zlib                     bool
}

// File is a whole PBF file. Header nil = no header block (a resumed stream).
type File struct {
	Header *Header
	Blocks []*Block
}

func (b *Block) gran() int64 {
	if b.Granularity != nil {
		return int64(*b.Granularity)
	}
	return 100
}
func (b *Block) dgran() int64 {
	if b.DateGranularity != nil {
		return int64(*b.DateGranularity)
	}
	return 1000
}
func (b *Block) latOff() int64 {
	if b.LatOffset != nil {
		return *b.LatOffset
	}
	return 0
}
func (b *Block) lonOff() int64 {
	if b.LonOffset != nil {
		return *b.LonOffset
	}
	return 0
}

// Normalize enforces the encoder's preconditions on a (possibly shrunk or
// hand-edited) block: keys_vals present when a node has tags; lat/lon columns
// as long as refs.
func (b *Block) Normalize() {
	maxTS := maxMillis / b.dgran()
	clampTS := func(v *int64) {
		if *v > maxTS {
			*v %= maxTS + 1
		}
	}
	// keep offset+granularity*raw within +-180 degrees (a flipped granularity
	// must not push coordinates out of the range real files use)
	maxRaw := (180000000000 - 1000000000) / b.gran()
	clampC := func(v *int64) {
		if *v > maxRaw || *v < -maxRaw {
			*v %= maxRaw + 1
		}
	}
	for gi := range b.Groups {
		g := &b.Groups[gi]
		if d := g.Dense; d != nil {
			for ni := range d.Nodes {
				n := &d.Nodes[ni]
				if len(n.Tags) > 0 {
					d.HasKeyVals = true
				}
				clampTS(&n.Timestamp)
				clampC(&n.Lat)
				clampC(&n.Lon)
			}
		}
		for wi := range g.Ways {
			w := &g.Ways[wi]
			if w.Lats != nil && (len(w.Lats) != len(w.Refs) || len(w.Lons) != len(w.Refs)) {
				w.Lats, w.Lons = nil, nil
			}
			for i := range w.Lats {
				clampC(&w.Lats[i])
				clampC(&w.Lons[i])
			}
			if w.Info != nil && w.Info.Timestamp != nil {
				clampTS(w.Info.Timestamp)
			}
		}
		for ri := range g.Relations {
			r := &g.Relations[ri]
			if r.Info != nil && r.Info.Timestamp != nil {
				clampTS(r.Info.Timestamp)
			}
		}
	}
}

type strtab struct {
	idx map[string]int
	s   []string
}

func (b *Block) buildStrtab() *strtab {
	// collect all strings, order them by a shuffle derived from ShuffleSeed
	seen := map[string]bool{"": true}
	var all []string
	add := func(s string) {
		if !seen[s] {
			seen[s] = true
			all = append(all, s)
		}
	}
	for _, s := range b.ExtraStrings {
		add(s)
	}
	addInfo := func(in *Info) {
		if in != nil && in.User != nil {
			add(*in.User)
		}
	}
	for _, g := range b.Groups {
		if d := g.Dense; d != nil {
			for _, n := range d.Nodes {
				for _, t := range n.Tags {
					add(t.K)
					add(t.V)
				}
				if d.HasInfo && d.CUser {
					add(n.User)
				}
			}
		}
		for _, w := range g.Ways {
			for _, t := range w.Tags {
				add(t.K)
				add(t.V)
			}
			addInfo(w.Info)
		}
		for _, r := range g.Relations {
			for _, t := range r.Tags {
				add(t.K)
				add(t.V)
			}
			addInfo(r.Info)
			for _, m := range r.Members {
				add(m.Role)
			}
		}
	}
	if b.ShuffleSeed != 0 {
		rnd := rand.New(rand.NewSource(b.ShuffleSeed))
		rnd.Shuffle(len(all), func(i, j int) { all[i], all[j] = all[j], all[i] })
	}
	st := &strtab{idx: map[string]int{"": 0}, s: []string{""}}
	for _, s := range all {
		st.idx[s] = len(st.s)
		st.s = append(st.s, s)
	}
	return st
}

func (t *strtab) get(s string) uint64 { return uint64(t.idx[s]) }

func encInfo(st *strtab, in *Info, rnd *rand.Rand) []byte {
	var w W
	if in.Version != nil {
		w.Varint(1, uint64(int64(*in.Version)))
	}
	if in.Timestamp != nil {
		w.Varint(2, uint64(*in.Timestamp))
	}
	if in.Changeset != nil {
		w.Varint(3, uint64(*in.Changeset))
	}
	if in.UID != nil {
		w.Varint(4, uint64(int64(*in.UID)))
	}
	if in.User != nil {
		w.Varint(5, st.get(*in.User))
	}
	if in.Visible != nil {
		v := uint64(0)
		if *in.Visible {
			v = 1
		}
		w.Varint(6, v)
	}
	return w.Out(rnd)
}

func delta(vs []int64) []uint64 {
	out := make([]uint64, len(vs))
	var prev int64
	for i, v := range vs {
		out[i] = ZZ(v - prev)
		prev = v
	}
	return out
}

func encTags(w *W, st *strtab, tags []Tag) {
	if len(tags) == 0 {
		return
	}
	ks := make([]uint64, len(tags))
	vs := make([]uint64, len(tags))
	for i, t := range tags {
		ks[i] = st.get(t.K)
		vs[i] = st.get(t.V)
	}
	w.Packed(2, ks)
	w.Packed(3, vs)
}

// Mutator lets C06 damage specific parts of the encoding; nil = faithful.
type Mutator struct {
	// Way/Relation/Dense message hooks receive the faithful message bytes of
	// element index i of group gi and return what to emit instead.
	StringIndex     func(place string, idx uint64) uint64
	DropDense       map[int]bool   // dense field numbers to drop (1 ids, 8 lat, 9 lon)
	Truncate        map[string]int // column name -> number of trailing entries to drop
	PlainNodes      bool           // emit group field 1 (plain Node) instead of dense
	DropStringTable bool           // omit the (required) string table field
}

func (m *Mutator) sidx(place string, idx uint64) uint64 {
	if m == nil || m.StringIndex == nil {
		return idx
	}
	return m.StringIndex(place, idx)
}

func (m *Mutator) trunc(col string, vs []uint64) []uint64 {
	if m == nil || m.Truncate == nil {
		return vs
	}
	n := m.Truncate[col]
	if n > 0 && len(vs) >= n {
		return vs[:len(vs)-n]
	}
	if n < 0 { // extend
		for i := 0; i < -n; i++ {
			vs = append(vs, 0)
		}
	}
	return vs
}

// Encode returns the PrimitiveBlock message bytes.
func (b *Block) Encode() []byte { return b.EncodeWith(nil) }

// EncodeWith encodes with an optional damaging mutator.
func (b *Block) EncodeWith(mu *Mutator) []byte {
	b.Normalize()
	st := b.buildStrtab()
	var rnd *rand.Rand
	if b.Exotic != 0 && mu == nil {
		rnd = rand.New(rand.NewSource(b.Exotic))
	}
	emptyPacked := func() bool { return rnd != nil && rnd.Intn(3) == 0 }
	var groups [][]byte
	for _, g := range b.Groups {
		var pg W
		if d := g.Dense; d != nil && mu != nil && mu.PlainNodes {
			for _, n := range d.Nodes {
				var w W
				w.Varint(1, ZZ(n.ID))
				w.Varint(8, ZZ(n.Lat))
				w.Varint(9, ZZ(n.Lon))
				pg.Bytes(1, w.B)
			}
		} else if d != nil {
			var dn W
			n := len(d.Nodes)
			ids, lats, lons := make([]int64, n), make([]int64, n), make([]int64, n)
			for i, nd := range d.Nodes {
				ids[i], lats[i], lons[i] = nd.ID, nd.Lat, nd.Lon
			}
			if mu == nil || !mu.DropDense[1] {
				dn.Packed(1, mu.trunc("dense.ids", delta(ids)))
			}
			if d.HasInfo {
				var di W
				if d.CVersion {
					v := make([]uint64, n)
					for i, nd := range d.Nodes {
						v[i] = uint64(int64(nd.Version))
					}
					di.Packed(1, mu.trunc("dense.version", v))
				}
				if d.CTimestamp {
					v := make([]int64, n)
					for i, nd := range d.Nodes {
						v[i] = nd.Timestamp
					}
					di.Packed(2, mu.trunc("dense.timestamp", delta(v)))
				}
				if d.CChangeset {
					v := make([]int64, n)
					for i, nd := range d.Nodes {
						v[i] = nd.Changeset
					}
					di.Packed(3, mu.trunc("dense.changeset", delta(v)))
				}
				if d.CUID {
					v := make([]int64, n)
					for i, nd := range d.Nodes {
						v[i] = int64(nd.UID)
					}
					di.Packed(4, mu.trunc("dense.uid", delta(v)))
				}
				if d.CUser {
					v := make([]int64, n)
					for i, nd := range d.Nodes {
						v[i] = int64(mu.sidx("dense.user", st.get(nd.User)))
					}
					di.Packed(5, mu.trunc("dense.user", delta(v)))
				}
				if d.CVisible {
					v := make([]uint64, n)
					for i, nd := range d.Nodes {
						if nd.Visible {
							v[i] = 1
						}
					}
					di.Packed(6, mu.trunc("dense.visible", v))
				}
				dn.Bytes(5, di.Out(rnd))
			}
			if mu == nil || !mu.DropDense[8] {
				dn.Packed(8, mu.trunc("dense.lat", delta(lats)))
			}
			if mu == nil || !mu.DropDense[9] {
				dn.Packed(9, mu.trunc("dense.lon", delta(lons)))
			}
			if d.HasKeyVals {
				var kv []uint64
				for _, nd := range d.Nodes {
					for _, t := range nd.Tags {
						kv = append(kv, mu.sidx("dense.key", st.get(t.K)), mu.sidx("dense.val", st.get(t.V)))
					}
					kv = append(kv, 0)
				}
				dn.Packed(10, mu.trunc("dense.keyvals", kv))
			}
			pg.Bytes(2, dn.Out(rnd))
		}
		for _, wy := range g.Ways {
			var w W
			w.Varint(1, uint64(wy.ID))
			if len(wy.Tags) > 0 {
				ks := make([]uint64, len(wy.Tags))
				vs := make([]uint64, len(wy.Tags))
				for i, t := range wy.Tags {
					ks[i] = mu.sidx("way.key", st.get(t.K))
					vs[i] = mu.sidx("way.val", st.get(t.V))
				}
				w.Packed(2, ks)
				w.Packed(3, mu.trunc("way.vals", vs))
			} else if emptyPacked() {
				w.Packed(2, nil)
				w.Packed(3, nil)
			}
			if wy.Info != nil {
				in := *wy.Info
				ib := encInfo(st, &in, rnd)
				if in.User != nil && mu != nil && mu.StringIndex != nil {
					// re-encode with damaged user index
					var iw W
					in2 := in
					in2.User = nil
					iw.B = append(iw.B, encInfo(st, &in2, nil)...)
					iw.Varint(5, mu.sidx("way.user", st.get(*in.User)))
					ib = iw.B
				}
				w.Bytes(4, ib)
			}
			if len(wy.Refs) > 0 {
				w.Packed(8, delta(wy.Refs))
			} else if emptyPacked() {
				w.Packed(8, nil)
			}
			if len(wy.Lats) > 0 {
				w.Packed(9, mu.trunc("way.lat", delta(wy.Lats)))
				w.Packed(10, mu.trunc("way.lon", delta(wy.Lons)))
			}
			pg.Bytes(3, w.Out(rnd))
		}
		for _, r := range g.Relations {
			var w W
			w.Varint(1, uint64(r.ID))
			if len(r.Tags) > 0 {
				ks := make([]uint64, len(r.Tags))
				vs := make([]uint64, len(r.Tags))
				for i, t := range r.Tags {
					ks[i] = mu.sidx("rel.key", st.get(t.K))
					vs[i] = mu.sidx("rel.val", st.get(t.V))
				}
				w.Packed(2, ks)
				w.Packed(3, mu.trunc("rel.vals", vs))
			} else if emptyPacked() {
				w.Packed(2, nil)
				w.Packed(3, nil)
			}
			if r.Info != nil {
				in := *r.Info
				ib := encInfo(st, &in, rnd)
				if in.User != nil && mu != nil && mu.StringIndex != nil {
					var iw W
					in2 := in
					in2.User = nil
					iw.B = append(iw.B, encInfo(st, &in2, nil)...)
					iw.Varint(5, mu.sidx("rel.user", st.get(*in.User)))
					ib = iw.B
				}
				w.Bytes(4, ib)
			}
			if len(r.Members) > 0 {
				roles := make([]uint64, len(r.Members))
				ids := make([]int64, len(r.Members))
				ty := make([]uint64, len(r.Members))
				for i, m := range r.Members {
					roles[i] = mu.sidx("rel.role", st.get(m.Role))
					ids[i] = m.Ref
					ty[i] = uint64(m.Type)
				}
				w.Packed(8, roles)
				w.Packed(9, mu.trunc("rel.memids", delta(ids)))
				w.Packed(10, mu.trunc("rel.types", ty))
			} else if emptyPacked() {
				w.Packed(8, nil)
				w.Packed(9, nil)
				w.Packed(10, nil)
			}
			pg.Bytes(4, w.Out(rnd))
		}
		for _, c := range g.Changesets {
			var w W
			w.Varint(1, uint64(c))
			pg.Bytes(5, w.B)
		}
		groups = append(groups, pg.Out(rnd))
	}
	var stw W
	for _, s := range st.s {
		stw.Bytes(1, []byte(s))
	}
	var pb W
	if mu == nil || !mu.DropStringTable {
		pb.Bytes(1, stw.B)
	}
	for _, g := range groups {
		pb.Bytes(2, g)
	}
	if b.Granularity != nil {
		pb.Varint(17, uint64(int64(*b.Granularity)))
	}
	if b.DateGranularity != nil {
		pb.Varint(18, uint64(int64(*b.DateGranularity)))
	}
	if b.LatOffset != nil {
		pb.Varint(19, uint64(*b.LatOffset))
	}
	if b.LonOffset != nil {
		pb.Varint(20, uint64(*b.LonOffset))
	}
	return pb.Out(rnd)
}

// StringTableLen returns the number of entries of the block's string table.
func (b *Block) StringTableLen() int { return len(b.buildStrtab().s) }

// Encode returns the HeaderBlock message bytes.
func (h *Header) Encode() []byte {
	var w W
	if h.HasBBox {
		var bb W
		bb.Varint(1, ZZ(h.Left))
		bb.Varint(2, ZZ(h.Right))
		bb.Varint(3, ZZ(h.Top))
		bb.Varint(4, ZZ(h.Bottom))
		w.Bytes(1, bb.B)
	}
	for _, f := range h.Required {
		w.Bytes(4, []byte(f))
	}
	for _, f := range h.Optional {
		w.Bytes(5, []byte(f))
	}
	if h.WritingProgram != nil {
		w.Bytes(16, []byte(*h.WritingProgram))
	}
	if h.Source != nil {
		w.Bytes(17, []byte(*h.Source))
	}
	if h.ReplTimestamp != nil {
		w.Varint(32, uint64(*h.ReplTimestamp))
	}
	if h.ReplSeq != nil {
		w.Varint(33, uint64(*h.ReplSeq))
	}
	if h.ReplBaseURL != nil {
		w.Bytes(34, []byte(*h.ReplBaseURL))
	}
	if h.Exotic != 0 {
		return w.Out(rand.New(rand.NewSource(h.Exotic)))
	}
	return w.B
}

// BlobOpt controls the framing of one file block.
type BlobOpt struct {
	Zlib      bool
	RawSize   bool // add raw_size to a raw blob
	HasIndex  bool
	IndexData []byte
}

// Frame is the byte layout of one encoded file block.
type Frame struct {
	Start    int // offset of the 4-byte length prefix
	HeaderAt int // offset of the BlobHeader
	BlobAt   int // offset of the Blob
	End      int // offset of the next block
}

// EncodeBlob builds the Blob message for a payload.
func EncodeBlob(payload []byte, o BlobOpt) []byte {
	var blob W
	if o.Zlib {
		var buf bytes.Buffer
		zw := zlib.NewWriter(&buf)
		zw.Write(payload)
		zw.Close()
		blob.Varint(2, uint64(len(payload)))
		blob.Bytes(3, buf.Bytes())
	} else {
		blob.Bytes(1, payload)
		if o.RawSize {
			blob.Varint(2, uint64(len(payload)))
		}
	}
	return blob.B
}

// FrameBlob wraps a Blob message into size prefix + BlobHeader + Blob.
func FrameBlob(typ string, blob []byte, index []byte) []byte {
	var h W
	h.Bytes(1, []byte(typ))
	if index != nil {
		h.Bytes(2, index)
	}
	h.Varint(3, uint64(len(blob)))
	out := make([]byte, 4)
	binary.BigEndian.PutUint32(out, uint32(len(h.B)))
	out = append(out, h.B...)
	return append(out, blob...)
}

// FileBlock is EncodeBlob + FrameBlob.
func FileBlock(typ string, payload []byte, o BlobOpt) []byte {
	idx := o.IndexData
	if o.HasIndex && idx == nil {
		idx = []byte{}
	}
	if !o.HasIndex {
		idx = nil
	}
	return FrameBlob(typ, EncodeBlob(payload, o), idx)
}

// Encoded is an encoded file with its layout.
type Encoded struct {
	Data   []byte
	Header Frame   // zero if no header
	Blocks []Frame // one per data block
}

func frameOf(start int, fb []byte) Frame {
	hl := int(binary.BigEndian.Uint32(fb[:4]))
	return Frame{Start: start, HeaderAt: start + 4, BlobAt: start + 4 + hl, End: start + len(fb)}
}

// Encode encodes the whole file.
func (f *File) Encode() *Encoded {
	e := &Encoded{}
	if f.Header != nil {
		fb := FileBlock("OSMHeader", f.Header.Encode(), BlobOpt{Zlib: f.Header.Zlib})
		e.Header = frameOf(0, fb)
		e.Data = append(e.Data, fb...)
	}
	for _, b := range f.Blocks {
		fb := FileBlock("OSMData", b.Encode(), BlobOpt{Zlib: b.Zlib, RawSize: b.RawSizeOnRaw, HasIndex: b.HasIndexData, IndexData: b.IndexData})
		e.Blocks = append(e.Blocks, frameOf(len(e.Data), fb))
		e.Data = append(e.Data, fb...)
	}
	return e
}

func ts(raw int64, dg int64) time.Time {
	ms := raw * dg
	return time.Unix(ms/1000, (ms%1000)*1e6).UTC()
}

func tags(ts []Tag) osm.Tags {
	if len(ts) == 0 {
		return nil
	}
	out := make(osm.Tags, len(ts))
	for i, t := range ts {
		out[i] = osm.Tag{Key: t.K, Value: t.V}
	}
	return out
}

func deg(nano int64) float64 { return float64(nano) / 1e9 }

// Expected returns the objects the format defines for this block, in order.
// An absent timestamp is the zero time.Time.
func (b *Block) Expected() []osm.Object {
	var out []osm.Object
	g, dg := b.gran(), b.dgran()
	for _, grp := range b.Groups {
		if d := grp.Dense; d != nil {
			for _, n := range d.Nodes {
				e := &osm.Node{ID: osm.NodeID(n.ID), Visible: true,
					Lat: deg(b.latOff() + g*n.Lat), Lon: deg(b.lonOff() + g*n.Lon), Tags: tags(n.Tags)}
				if d.HasInfo {
					if d.CVersion {
						e.Version = int(n.Version)
					}
					if d.CTimestamp {
						e.Timestamp = ts(n.Timestamp, dg)
					}
					if d.CChangeset {
						e.ChangesetID = osm.ChangesetID(n.Changeset)
					}
					if d.CUID {
						e.UserID = osm.UserID(n.UID)
					}
					if d.CUser {
						e.User = n.User
					}
					if d.CVisible {
						e.Visible = n.Visible
					}
				}
				out = append(out, e)
			}
		}
		for _, wy := range grp.Ways {
			e := &osm.Way{ID: osm.WayID(wy.ID), Visible: true, Tags: tags(wy.Tags)}
			applyInfo(wy.Info, dg, &e.Version, &e.Timestamp, &e.ChangesetID, &e.UserID, &e.User, &e.Visible)
			for i, r := range wy.Refs {
				wn := osm.WayNode{ID: osm.NodeID(r)}
				if len(wy.Lats) > 0 {
					wn.Lat = deg(b.latOff() + g*wy.Lats[i])
					wn.Lon = deg(b.lonOff() + g*wy.Lons[i])
				}
				e.Nodes = append(e.Nodes, wn)
			}
			out = append(out, e)
		}
		for _, r := range grp.Relations {
			e := &osm.Relation{ID: osm.RelationID(r.ID), Visible: true, Tags: tags(r.Tags)}
			applyInfo(r.Info, dg, &e.Version, &e.Timestamp, &e.ChangesetID, &e.UserID, &e.User, &e.Visible)
			for _, m := range r.Members {
				t := []osm.Type{osm.TypeNode, osm.TypeWay, osm.TypeRelation}[m.Type]
				e.Members = append(e.Members, osm.Member{Type: t, Ref: m.Ref, Role: m.Role})
			}
			out = append(out, e)
		}
	}
	return out
}

func applyInfo(in *Info, dg int64, v *int, t *time.Time, cs *osm.ChangesetID, uid *osm.UserID, user *string, vis *bool) {
	if in == nil {
		return
	}
	if in.Version != nil {
		*v = int(*in.Version)
	}
	if in.Timestamp != nil {
		*t = ts(*in.Timestamp, dg)
	}
	if in.Changeset != nil {
		*cs = osm.ChangesetID(*in.Changeset)
	}
	if in.UID != nil {
		*uid = osm.UserID(*in.UID)
	}
	if in.User != nil {
		*user = *in.User
	}
	if in.Visible != nil {
		*vis = *in.Visible
	}
}

// Expected returns all objects of the file and, for each, its block index.
func (f *File) Expected() (objs []osm.Object, blockOf []int) {
	for i, b := range f.Blocks {
		e := b.Expected()
		objs = append(objs, e...)
		for range e {
			blockOf = append(blockOf, i)
		}
	}
	return
}

// Expected is the header the format defines for the model.
func (h *Header) Expected() *osmpbf.Header {
	out := &osmpbf.Header{RequiredFeatures: h.Required, OptionalFeatures: h.Optional}
	if h.HasBBox {
		out.Bounds = &osm.Bounds{MinLon: deg(h.Left), MaxLon: deg(h.Right), MaxLat: deg(h.Top), MinLat: deg(h.Bottom)}
	}
	if h.WritingProgram != nil {
		out.WritingProgram = *h.WritingProgram
	}
	if h.Source != nil {
		out.Source = *h.Source
	}
	if h.ReplTimestamp != nil {
		out.ReplicationTimestamp = time.Unix(*h.ReplTimestamp, 0).UTC()
	}
	if h.ReplSeq != nil {
		out.ReplicationSeqNum = uint64(*h.ReplSeq)
	}
	if h.ReplBaseURL != nil {
		out.ReplicationBaseURL = *h.ReplBaseURL
	}
	return out
}
