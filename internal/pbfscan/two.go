// Package pbfscan holds scan scenarios shared by several PBF properties.
package pbfscan

import (
	"bytes"
	"context"
	"fmt"
	"io"
	"runtime"
	"runtime/debug"
	"time"

	"github.com/paulmach/osm"
	"github.com/paulmach/osm/osmpbf"

	"verif/internal/pbfgen"
)

type gateReader struct {
	data    []byte
	pos     int
	stallAt int
	gate    chan struct{}
	stalled chan struct{}
	done    bool
}

func (r *gateReader) Read(p []byte) (int, error) {
	if !r.done && r.pos >= r.stallAt {
		r.done = true
		close(r.stalled)
		<-r.gate
	}
	if r.pos >= len(r.data) {
		return 0, io.EOF
	}
	n := len(p)
	if !r.done && n > r.stallAt-r.pos {
		n = r.stallAt - r.pos
	}
	if n > len(r.data)-r.pos {
		n = len(r.data) - r.pos
	}
	copy(p, r.data[r.pos:r.pos+n])
	r.pos += n
	return n, nil
}

// Two runs two scanners that are alive at the same time: scanner A's reader
// stalls at byte stallAt of dataA (inside a block) until scanner B has scanned
// dataB to its end; then A is released and finishes. With oneP the scenario
// runs with GOMAXPROCS=1 and the collector off, where per-P caches and pools
// pass memory from one scanner to the next deterministically. Both sequences
// must equal their models. Returns "" or a description; hang reports a
// scenario that did not finish within 30 s.
func Two(dataA []byte, wantA []osm.Object, procsA, stallAt int, dataB []byte, wantB []osm.Object, procsB int, oneP bool) (diff string, hang bool) {
	done := make(chan string, 1)
	go func() { done <- two(dataA, wantA, procsA, stallAt, dataB, wantB, procsB, oneP) }()
	select {
	case d := <-done:
		return d, false
	case <-time.After(30 * time.Second):
		return fmt.Sprintf("two scanners alive at once: the scenario did not finish within 30s (procs %d/%d)", procsA, procsB), true
	}
}

func two(dataA []byte, wantA []osm.Object, procsA, stallAt int, dataB []byte, wantB []osm.Object, procsB int, oneP bool) string {
	if oneP {
		old := runtime.GOMAXPROCS(1)
		defer runtime.GOMAXPROCS(old)
		defer debug.SetGCPercent(debug.SetGCPercent(-1))
	}
	if stallAt > len(dataA) {
		stallAt = len(dataA)
	}
	ra := &gateReader{data: dataA, stallAt: stallAt, gate: make(chan struct{}), stalled: make(chan struct{})}
	sa := osmpbf.New(context.Background(), ra, procsA)
	defer sa.Close()
	var gotA []osm.Object
	var errA error
	finished := make(chan struct{})
	go func() {
		defer close(finished)
		for sa.Scan() {
			gotA = append(gotA, sa.Object())
		}
		errA = sa.Err()
	}()
	<-ra.stalled
	sb := osmpbf.New(context.Background(), bytes.NewReader(dataB), procsB)
	var gotB []osm.Object
	for sb.Scan() {
		gotB = append(gotB, sb.Object())
	}
	errB := sb.Err()
	sb.Close()
	close(ra.gate)
	<-finished
	if errB != nil {
		return fmt.Sprintf("scanner B (started while scanner A was waiting for input) failed after %d of %d objects: %v", len(gotB), len(wantB), errB)
	}
	if d := pbfgen.DiffSeq(gotB, wantB); d != "" {
		return "scanner B (started while scanner A was waiting for input): " + d
	}
	if errA != nil {
		return fmt.Sprintf("scanner A (stalled at byte %d of %d while scanner B ran, procs %d/%d) failed after %d of %d objects: %v", stallAt, len(dataA), procsA, procsB, len(gotA), len(wantA), errA)
	}
	if d := pbfgen.DiffSeq(gotA, wantA); d != "" {
		return fmt.Sprintf("scanner A (stalled at byte %d of %d while scanner B ran, procs %d/%d): %s", stallAt, len(dataA), procsA, procsB, d)
	}
	return ""
}
