// Package harness is the test-side half of the verification driver: it runs a
// generated-input property with pgregory.net/rapid, counts and classifies the
// cases, keeps samples, turns the shrunk failing case into a replay file and
// writes a machine-readable result for cmd/vcheck to merge into evidence.
package harness

import (
	"bytes"
	"encoding/json"
	"flag"
	"fmt"
	"hash/fnv"
	"os"
	"path/filepath"
	"runtime/debug"
	"sort"
	"strconv"
	"strings"
	"sync"
	"testing"

	"pgregory.net/rapid"
)

// Failure is a property violation with a classification signature. The
// signature is what known_findings.json entries are matched against.
type Failure struct {
	Sig string
	Msg string
}

func (f *Failure) Error() string { return f.Sig + ": " + f.Msg }

// Failf builds a Failure.
func Failf(sig, format string, args ...any) error {
	return &Failure{Sig: sig, Msg: fmt.Sprintf(format, args...)}
}

// Violation is one reported violation.
type Violation struct {
	Sub       string `json:"sub"`
	Signature string `json:"signature"`
	Message   string `json:"message"`
	Replay    string `json:"replay"`
}

// KnownHit is a deterministic witness of a listed known finding that was
// observed to (still) fail.
type KnownHit struct {
	Signature string `json:"signature"`
	What      string `json:"what"`
}

// Sub is the per-sub-check part of a result.
type Sub struct {
	Requested   int               `json:"requested"`
	Evaluations int               `json:"evaluations"`
	Nontrivial  int               `json:"nontrivial"`
	Hashes      []uint64          `json:"hashes"`
	Classes     map[string]int    `json:"classes"`
	Samples     []json.RawMessage `json:"samples"`
	Excluded    int               `json:"excluded_known"`
	Exhaustive  bool              `json:"exhaustive"`
	Rule        string            `json:"rule"`

	seen map[uint64]struct{}
}

// Result is what a test binary writes to VERIF_OUT.
type Result struct {
	Property   string          `json:"property"`
	Tier       string          `json:"tier"`
	Seed       uint64          `json:"seed"`
	Shard      int             `json:"shard"`
	Subs       map[string]*Sub `json:"subs"`
	Violations []Violation     `json:"violations"`
	Known      []KnownHit      `json:"known"`
	Notes      []string        `json:"notes"`
	Degenerate []string        `json:"degenerate"`
}

var (
	mu     sync.Mutex
	result = &Result{Subs: map[string]*Sub{}}
	scale  = 1.0
	shrink = "15s"
)

// Tier returns "quick" or "thorough".
func Tier() string { return result.Tier }

// Seed returns the seed of this process.
func Seed() uint64 { return result.Seed }

// Shard returns the shard index of this process.
func Shard() int { return result.Shard }

// Scale returns the case-count multiplier of this run.
func Scale() float64 { return scale }

// Scaled applies the run's multiplier to a base count.
func Scaled(n int) int {
	v := int(float64(n) * scale)
	if v < 1 {
		v = 1
	}
	return v
}

// ReplayDir is where replay files of this property live.
func ReplayDir() string {
	if d := os.Getenv("VERIF_REPLAYS"); d != "" {
		return d
	}
	return filepath.Join("/verif/replays", result.Property)
}

// Main is called from TestMain.
func Main(m *testing.M, property string) {
	flag.Parse()
	result.Property = property
	result.Tier = os.Getenv("VERIF_TIER")
	if result.Tier != "thorough" {
		result.Tier = "quick"
	}
	result.Seed = 1
	if s, err := strconv.ParseUint(os.Getenv("VERIF_SEED"), 10, 64); err == nil && s != 0 {
		result.Seed = s
	}
	if s, err := strconv.ParseFloat(os.Getenv("VERIF_SCALE"), 64); err == nil && s > 0 {
		scale = s
	}
	if s, err := strconv.Atoi(os.Getenv("VERIF_SHARD")); err == nil {
		result.Shard = s
	}
	if s := os.Getenv("VERIF_SHRINK"); s != "" {
		shrink = s
	}
	os.RemoveAll("testdata/rapid")
	code := m.Run()
	WriteResult()
	os.Exit(code)
}

// WriteResult writes the result file now (also used before risky steps).
func WriteResult() {
	mu.Lock()
	defer mu.Unlock()
	out := os.Getenv("VERIF_OUT")
	if out == "" {
		return
	}
	for _, s := range result.Subs {
		s.Hashes = s.Hashes[:0]
		for h := range s.seen {
			s.Hashes = append(s.Hashes, h)
		}
		sort.Slice(s.Hashes, func(i, j int) bool { return s.Hashes[i] < s.Hashes[j] })
	}
	b, _ := json.Marshal(result)
	tmp := out + ".tmp"
	if err := os.WriteFile(tmp, b, 0o644); err == nil {
		os.Rename(tmp, out)
	}
}

func sub(name string) *Sub {
	s := result.Subs[name]
	if s == nil {
		s = &Sub{Classes: map[string]int{}, seen: map[uint64]struct{}{}}
		result.Subs[name] = s
	}
	return s
}

// Note records free text in the result.
func Note(format string, args ...any) {
	mu.Lock()
	defer mu.Unlock()
	result.Notes = append(result.Notes, fmt.Sprintf(format, args...))
}

// Known records that the deterministic witness of a known finding failed.
func Known(sig, what string) {
	mu.Lock()
	defer mu.Unlock()
	result.Known = append(result.Known, KnownHit{Signature: sig, What: what})
}

// Spec is one generated-input property.
type Spec[C any] struct {
	// Name of the sub-check (unique within the property).
	Name string
	// N is the quick-tier case count (scaled by VERIF_SCALE).
	N int
	// Rule states how cases are generated and what makes one non-trivial.
	Rule string
	// Gen draws a case; every random choice must come from t.
	Gen func(t *rapid.T) C
	// Check runs the oracle; nil means the property held on this case.
	Check func(c C) error
	// Classify reports whether the case is non-trivial and its class labels.
	Classify func(c C) (bool, []string)
	// Describe renders a case for samples / replay files (JSON-marshalable).
	Describe func(c C) any
	// Key is hashed to decide distinctness; default is the JSON encoding.
	Key func(c C) []byte
	// Floors: minimal fraction of evaluations carrying a class label.
	Floors map[string]float64
	// Inflight: write the case to VERIF_INFLIGHT before checking it, so the
	// driver can attribute a process crash to it.
	Inflight bool
	// ExternalCount: the check counts evaluations itself through Count (one
	// generated case fans out into many evaluated scans); record keeps samples only.
	ExternalCount bool
	// NoReplay disables case_json replay files (cases that cannot be encoded).
	NoReplay bool
}

type replayFile struct {
	Property  string          `json:"property"`
	Sub       string          `json:"sub"`
	Signature string          `json:"signature"`
	Message   string          `json:"message"`
	Seed      uint64          `json:"seed"`
	Case      json.RawMessage `json:"case"`
	CaseJSON  json.RawMessage `json:"case_json,omitempty"`
	RapidFail string          `json:"rapid_failfile,omitempty"`
	HowTo     string          `json:"how_to_replay"`
}

// caseBytes serialises a case with encoding/json (cases are harness-defined
// structs; JSON keeps nil pointers apart from pointers to zero values, which
// gob does not).
func caseBytes[C any](c C) []byte {
	b, err := json.Marshal(&c)
	if err != nil {
		return []byte(fmt.Sprintf("%#v", c))
	}
	return b
}

func hash64(b []byte) uint64 {
	h := fnv.New64a()
	h.Write(b)
	return h.Sum64()
}

func describe[C any](s *Spec[C], c C) json.RawMessage {
	var v any = c
	if s.Describe != nil {
		v = s.Describe(c)
	}
	b, err := json.Marshal(v)
	if err != nil {
		b, _ = json.Marshal(fmt.Sprintf("%+v", v))
	}
	if len(b) > 6000 {
		b, _ = json.Marshal(string(b[:6000]) + "…(truncated)")
	}
	return b
}

func safeCheck[C any](s *Spec[C], c C) (err error) {
	defer func() {
		if r := recover(); r != nil {
			err = Failf(s.Name+"/panic", "panic in property body: %v\n%s", r, debug.Stack())
		}
	}()
	return s.Check(c)
}

func asFailure(name string, err error) *Failure {
	if f, ok := err.(*Failure); ok {
		return f
	}
	return &Failure{Sig: name, Msg: err.Error()}
}

func writeReplay[C any](s *Spec[C], c C, f *Failure, rapidFail string) string {
	rf := replayFile{
		Property:  result.Property,
		Sub:       s.Name,
		Signature: f.Sig,
		Message:   f.Msg,
		Seed:      result.Seed,
		Case:      describe(s, c),
		RapidFail: rapidFail,
		HowTo:     "cd /verif && ./check " + result.Property + " replay   (re-runs every file in this directory through the same oracle, without the random generator)",
	}
	gb := caseBytes(c)
	if !s.NoReplay && json.Valid(gb) {
		rf.CaseJSON = gb
	}
	dir := ReplayDir()
	os.MkdirAll(dir, 0o755)
	name := fmt.Sprintf("%s-%016x.json", sanitize(s.Name), hash64(gb))
	path := filepath.Join(dir, name)
	b, _ := json.MarshalIndent(rf, "", " ")
	os.WriteFile(path, b, 0o644)
	return path
}

func sanitize(s string) string {
	return strings.Map(func(r rune) rune {
		if r >= 'a' && r <= 'z' || r >= 'A' && r <= 'Z' || r >= '0' && r <= '9' || r == '-' || r == '_' {
			return r
		}
		return '_'
	}, s)
}

func addViolation(v Violation) {
	mu.Lock()
	defer mu.Unlock()
	for _, o := range result.Violations {
		if o.Replay == v.Replay && o.Signature == v.Signature {
			return
		}
	}
	result.Violations = append(result.Violations, v)
}

func record[C any](s *Spec[C], st *Sub, c C) {
	nt, classes := true, []string(nil)
	if s.Classify != nil {
		nt, classes = s.Classify(c)
	}
	mu.Lock()
	defer mu.Unlock()
	if s.ExternalCount {
		st.Classes["generated-cases"]++
		if n := st.Classes["generated-cases"]; len(st.Samples) < 3 || (len(st.Samples) < 6 && n%7 == 0) {
			st.Samples = append(st.Samples, describe(s, c))
		}
		return
	}
	st.Evaluations++
	for _, cl := range classes {
		st.Classes[cl]++
	}
	if !nt {
		return
	}
	st.Nontrivial++
	var key []byte
	if s.Key != nil {
		key = s.Key(c)
	} else {
		key = caseBytes(c)
	}
	h := hash64(key)
	if _, ok := st.seen[h]; ok {
		return
	}
	st.seen[h] = struct{}{}
	n := len(st.seen)
	if len(st.Samples) < 3 || (len(st.Samples) < 6 && (n == 50 || n == 500 || n == 5000)) {
		st.Samples = append(st.Samples, describe(s, c))
	}
}

// replayAll re-runs every saved replay file of this sub-check.
func replayAll[C any](t *testing.T, s *Spec[C]) {
	if s.NoReplay {
		return
	}
	files, _ := filepath.Glob(filepath.Join(ReplayDir(), sanitize(s.Name)+"-*.json"))
	sort.Strings(files)
	n := 0
	for _, p := range files {
		b, err := os.ReadFile(p)
		if err != nil {
			continue
		}
		var rf replayFile
		if json.Unmarshal(b, &rf) != nil || rf.Sub != s.Name || len(rf.CaseJSON) == 0 {
			continue
		}
		var c C
		dec := json.NewDecoder(bytes.NewReader(rf.CaseJSON))
		dec.DisallowUnknownFields()
		if err := dec.Decode(&c); err != nil {
			Note("stale replay file %s ignored: %v", p, err)
			continue
		}
		n++
		if s.Inflight {
			writeInflight(s, c)
		}
		if err := safeCheck(s, c); err != nil {
			f := asFailure(s.Name, err)
			addViolation(Violation{Sub: s.Name, Signature: f.Sig, Message: f.Msg, Replay: p})
			t.Errorf("replay %s: %v", p, f)
		}
	}
	if n > 0 {
		mu.Lock()
		sub(s.Name).Classes["replayed-files"] += n
		mu.Unlock()
	}
}

func writeInflight[C any](s *Spec[C], c C) {
	p := os.Getenv("VERIF_INFLIGHT")
	if p == "" {
		return
	}
	rf := replayFile{Property: result.Property, Sub: s.Name, Seed: result.Seed, Case: describe(s, c)}
	if !s.NoReplay {
		if cb := caseBytes(c); json.Valid(cb) {
			rf.CaseJSON = cb
		}
	}
	b, _ := json.Marshal(rf)
	os.WriteFile(p, b, 0o644)
}

// Run executes one sub-check: saved replays first, then N generated cases.
func Run[C any](t *testing.T, s Spec[C]) {
	t.Helper()
	if only := os.Getenv("VERIF_ONLY"); only != "" && only != s.Name {
		return
	}
	mu.Lock()
	st := sub(s.Name)
	st.Rule = s.Rule
	mu.Unlock()

	if Shard() == 0 {
		replayAll(t, &s)
	}
	if os.Getenv("VERIF_REPLAY_ONLY") != "" {
		return
	}
	n := Scaled(s.N)
	mu.Lock()
	st.Requested += n
	mu.Unlock()

	flag.Set("rapid.checks", strconv.Itoa(n))
	flag.Set("rapid.seed", strconv.FormatUint(result.Seed, 10))
	flag.Set("rapid.shrinktime", shrink)

	type failed struct {
		c C
		f *Failure
	}
	var last *failed
	ok := t.Run(s.Name, func(t *testing.T) {
		rapid.Check(t, func(rt *rapid.T) {
			c := s.Gen(rt)
			if s.Inflight {
				writeInflight(&s, c)
			}
			err := safeCheck(&s, c)
			record(&s, st, c)
			if err != nil {
				f := asFailure(s.Name, err)
				last = &failed{c: c, f: f}
				rt.Fatalf("%v", f)
			}
		})
	})
	if last != nil {
		rapidFail := ""
		if m, _ := filepath.Glob("testdata/rapid/*/*.fail"); len(m) > 0 {
			sort.Strings(m)
			if b, err := os.ReadFile(m[len(m)-1]); err == nil {
				rapidFail = string(b)
			}
		}
		p := writeReplay(&s, last.c, last.f, rapidFail)
		addViolation(Violation{Sub: s.Name, Signature: last.f.Sig, Message: last.f.Msg, Replay: p})
		os.RemoveAll("testdata/rapid")
	} else if !ok {
		mu.Lock()
		result.Degenerate = append(result.Degenerate, s.Name+": rapid reported a failure that is not a property violation (see log)")
		mu.Unlock()
	}
	WriteResult()
	if last != nil {
		return
	}
	// generator health
	mu.Lock()
	var bad []string
	for cl, min := range s.Floors {
		frac := float64(st.Classes[cl]) / float64(max(st.Evaluations, 1))
		if frac < min {
			bad = append(bad, fmt.Sprintf("%s: class %q in %.1f%% of cases, floor %.1f%%", s.Name, cl, 100*frac, 100*min))
		}
	}
	result.Degenerate = append(result.Degenerate, bad...)
	mu.Unlock()
	for _, b := range bad {
		t.Errorf("generator degenerate: %s", b)
	}
}

// Count adds externally counted evaluations to a sub-check: n evaluations,
// the keys of the non-trivial ones (hashed for distinctness), class counts and
// the number of cases excluded because they are listed known findings.
func Count(subName string, n int, ntKeys []string, classes map[string]int, excluded int) {
	mu.Lock()
	defer mu.Unlock()
	st := sub(subName)
	st.Evaluations += n
	st.Nontrivial += len(ntKeys)
	for _, k := range ntKeys {
		st.seen[hash64([]byte(k))] = struct{}{}
	}
	for c, v := range classes {
		st.Classes[c] += v
	}
	st.Excluded += excluded
}

// Enum is the recorder handed to an enumeration.
type Enum struct {
	t    *testing.T
	name string
	st   *Sub
}

// Case counts one enumerated case.
func (e *Enum) Case(nontrivial bool, key string, classes ...string) {
	e.st.Evaluations++
	for _, c := range classes {
		e.st.Classes[c]++
	}
	if nontrivial {
		e.st.Nontrivial++
		e.st.seen[hash64([]byte(key))] = struct{}{}
	}
}

// Sample keeps a sample (at most 8 are kept).
func (e *Enum) Sample(v any) {
	if len(e.st.Samples) >= 8 {
		return
	}
	b, err := json.Marshal(v)
	if err != nil {
		b, _ = json.Marshal(fmt.Sprint(v))
	}
	e.st.Samples = append(e.st.Samples, b)
}

// Exclude counts a case excluded because it is a listed known finding.
func (e *Enum) Exclude() { e.st.Excluded++ }

// Fail reports a violation found by the enumeration; the case description is
// the replay artefact (enumerations are deterministic and always re-run).
func (e *Enum) Fail(sig string, caseDesc any, format string, args ...any) {
	msg := fmt.Sprintf(format, args...)
	cb, err := json.Marshal(caseDesc)
	if err != nil {
		cb, _ = json.Marshal(fmt.Sprint(caseDesc))
	}
	rf := replayFile{Property: result.Property, Sub: e.name, Signature: sig, Message: msg, Seed: result.Seed, Case: cb,
		HowTo: "deterministic enumeration: cd /verif && ./check " + result.Property + " quick re-runs it"}
	dir := ReplayDir()
	os.MkdirAll(dir, 0o755)
	p := filepath.Join(dir, fmt.Sprintf("%s-enum-%016x.json", sanitize(e.name), hash64(append(cb, sig...))))
	b, _ := json.MarshalIndent(rf, "", " ")
	os.WriteFile(p, b, 0o644)
	addViolation(Violation{Sub: e.name, Signature: sig, Message: msg, Replay: p})
	e.t.Errorf("%s: %s", sig, msg)
}

// Failed reports whether a violation was already recorded by this enumeration.
func (e *Enum) Failed() bool { return e.t.Failed() }

// Enumerate runs a deterministic enumeration as a sub-check.
func Enumerate(t *testing.T, name, rule string, exhaustive bool, body func(e *Enum)) {
	t.Helper()
	if only := os.Getenv("VERIF_ONLY"); only != "" && only != name {
		return
	}
	if os.Getenv("VERIF_REPLAY_ONLY") != "" {
		return
	}
	mu.Lock()
	st := sub(name)
	st.Rule = rule
	st.Exhaustive = exhaustive
	mu.Unlock()
	t.Run(name, func(t *testing.T) {
		e := &Enum{t: t, name: name, st: st}
		defer func() {
			if r := recover(); r != nil {
				e.Fail(name+"/panic", fmt.Sprint(r), "panic in enumeration: %v\n%s", r, debug.Stack())
			}
		}()
		body(e)
	})
	mu.Lock()
	st.Requested += st.Evaluations
	mu.Unlock()
	WriteResult()
}
