package osmdoc

import (
	"encoding/json"
	"math/rand"
	"strconv"
	"strings"
)

// JSONStyle holds the choices of the independent osmjson writer.
type JSONStyle struct {
	Seed        int64
	VersionKind int  // 0 absent, 1 number, 2 string
	UnknownKeys bool // extra keys at top level and inside elements
	Minimal     bool // Overpass style: no visible, only present metadata; else API style (all metadata keys)
	Shuffle     bool // key order
	Pretty      bool // whitespace
	// VersionNum is the JSON number literal written when VersionKind is 1 ("" = 0.6).
	VersionNum string
	// NoTypeAt > 0: the NoTypeAt-th element (1-based) is written without its
	// "type" key (NoTypeNull: with "type":null) - not osmjson any more; used
	// for the element-independence relation only.
	NoTypeAt   int
	NoTypeNull bool
}

type jw struct {
	s      JSONStyle
	rnd    *rand.Rand
	noType bool // the element being written loses its type
}

func (w *jw) typed(kvs []kv) []kv {
	if !w.noType {
		return kvs
	}
	if w.s.NoTypeNull {
		kvs[0].v = "null"
		return kvs
	}
	return kvs[1:]
}

func jstr(s string) string {
	b, _ := json.Marshal(s)
	return string(b)
}

type kv struct{ k, v string }

func (w *jw) obj(kvs []kv) string {
	if w.s.Shuffle {
		w.rnd.Shuffle(len(kvs), func(i, j int) { kvs[i], kvs[j] = kvs[j], kvs[i] })
	}
	sep, colon := ",", ":"
	if w.s.Pretty {
		sep, colon = ",\n  ", ": "
	}
	parts := make([]string, len(kvs))
	for i, e := range kvs {
		parts[i] = jstr(e.k) + colon + e.v
	}
	return "{" + strings.Join(parts, sep) + "}"
}

func jf(v float64) string { return strconv.FormatFloat(v, 'f', -1, 64) }

func (w *jw) tags(ts []Tag) string {
	var kvs []kv
	for _, t := range ts {
		kvs = append(kvs, kv{t.K, jstr(t.V)})
	}
	return w.obj(kvs)
}

func (w *jw) meta(kvs []kv, user string, uid int64, visible bool, version int, cs int64, ts int64) []kv {
	if user != "" || !w.s.Minimal {
		if user != "" {
			kvs = append(kvs, kv{"user", jstr(user)})
		}
	}
	if uid != 0 {
		kvs = append(kvs, kv{"uid", i64(uid)})
	}
	if !w.s.Minimal || visible {
		kvs = append(kvs, kv{"visible", strconv.FormatBool(visible)})
	}
	if version != 0 {
		kvs = append(kvs, kv{"version", strconv.Itoa(version)})
	}
	if cs != 0 {
		kvs = append(kvs, kv{"changeset", i64(cs)})
	}
	if ts != 0 {
		kvs = append(kvs, kv{"timestamp", jstr(T(ts).Format("2006-01-02T15:04:05.999999999Z07:00"))})
	}
	if w.s.UnknownKeys && w.rnd.Intn(2) == 0 {
		kvs = append(kvs, kv{"x-extra", `{"a":[1,2,{"type":"node"}],"b":null}`})
	}
	return kvs
}

func (w *jw) node(n *Node) string {
	kvs := w.typed([]kv{{"type", `"node"`}, {"id", i64(n.ID)}, {"lat", jf(n.Lat)}, {"lon", jf(n.Lon)}})
	kvs = w.meta(kvs, n.User, n.UID, n.Visible, n.Version, n.CS, n.T)
	if len(n.Tags) > 0 || w.rnd.Intn(3) == 0 {
		kvs = append(kvs, kv{"tags", w.tags(n.Tags)})
	}
	return w.obj(kvs)
}

func (w *jw) way(x *Way) string {
	kvs := w.typed([]kv{{"type", `"way"`}, {"id", i64(x.ID)}})
	kvs = w.meta(kvs, x.User, x.UID, x.Visible, x.Version, x.CS, x.T)
	ids := make([]string, len(x.Nodes))
	for i, n := range x.Nodes {
		ids[i] = i64(n.Ref)
	}
	kvs = append(kvs, kv{"nodes", "[" + strings.Join(ids, ",") + "]"})
	if len(x.Tags) > 0 {
		kvs = append(kvs, kv{"tags", w.tags(x.Tags)})
	}
	return w.obj(kvs)
}

func (w *jw) relation(x *Relation) string {
	kvs := w.typed([]kv{{"type", `"relation"`}, {"id", i64(x.ID)}})
	kvs = w.meta(kvs, x.User, x.UID, x.Visible, x.Version, x.CS, x.T)
	ms := make([]string, len(x.Members))
	for i, m := range x.Members {
		ms[i] = w.obj([]kv{{"type", jstr(m.Type)}, {"ref", i64(m.Ref)}, {"role", jstr(m.Role)}})
	}
	kvs = append(kvs, kv{"members", "[" + strings.Join(ms, ",") + "]"})
	if len(x.Tags) > 0 {
		kvs = append(kvs, kv{"tags", w.tags(x.Tags)})
	}
	return w.obj(kvs)
}

// RenderJSON writes an osmjson document holding the nodes, ways and relations
// of the doc (the element kinds osmjson is defined for).
func RenderJSON(d *Doc, s JSONStyle) string {
	w := &jw{s: s, rnd: rand.New(rand.NewSource(s.Seed))}
	var kvs []kv
	switch s.VersionKind {
	case 1:
		if s.VersionNum != "" {
			kvs = append(kvs, kv{"version", s.VersionNum})
		} else {
			kvs = append(kvs, kv{"version", "0.6"})
		}
	case 2:
		kvs = append(kvs, kv{"version", jstr(d.Version)})
	}
	for _, e := range []struct{ k, v string }{{"generator", d.Generator}, {"copyright", d.Copyright}, {"attribution", d.Attribution}, {"license", d.License}} {
		if e.v != "" {
			kvs = append(kvs, kv{e.k, jstr(e.v)})
		}
	}
	if s.UnknownKeys {
		kvs = append(kvs, kv{"osm3s", `{"timestamp_osm_base":"2020-01-01T00:00:00Z","copyright":"x"}`})
	}
	var els []string
	for _, it := range d.Items {
		w.noType = s.NoTypeAt > 0 && len(els) == s.NoTypeAt-1
		switch {
		case it.Node != nil:
			els = append(els, w.node(it.Node))
		case it.Way != nil:
			els = append(els, w.way(it.Way))
		case it.Relation != nil:
			els = append(els, w.relation(it.Relation))
		}
	}
	sep := ","
	if s.Pretty {
		sep = ",\n"
	}
	kvs = append(kvs, kv{"elements", "[" + strings.Join(els, sep) + "]"})
	return w.obj(kvs)
}

// JSONView reduces a doc to what the osmjson writer above expresses: elements
// without annotations, committed times, updates or bounds.
func JSONView(d *Doc, s JSONStyle) *Doc {
	out := &Doc{Generator: d.Generator, Copyright: d.Copyright, Attribution: d.Attribution, License: d.License}
	switch s.VersionKind {
	case 1:
		out.Version = "0.6"
	case 2:
		out.Version = d.Version
	}
	for _, it := range d.Items {
		switch {
		case it.Node != nil:
			n := *it.Node
			n.Committed = 0
			out.Items = append(out.Items, Item{Node: &n})
		case it.Way != nil:
			x := *it.Way
			x.Committed, x.Updates, x.Bounds = 0, nil, nil
			x.Nodes = nil
			for _, wn := range it.Way.Nodes {
				x.Nodes = append(x.Nodes, WayNode{Ref: wn.Ref})
			}
			out.Items = append(out.Items, Item{Way: &x})
		case it.Relation != nil:
			x := *it.Relation
			x.Committed, x.Updates, x.Bounds = 0, nil, nil
			x.Members = nil
			for _, m := range it.Relation.Members {
				x.Members = append(x.Members, Member{Type: m.Type, Ref: m.Ref, Role: m.Role})
			}
			out.Items = append(out.Items, Item{Relation: &x})
		}
	}
	return out
}

// CountElements returns how many nodes, ways and relations RenderJSON writes.
func CountElements(d *Doc) int {
	n := 0
	for _, it := range d.Items {
		if it.Node != nil || it.Way != nil || it.Relation != nil {
			n++
		}
	}
	return n
}
