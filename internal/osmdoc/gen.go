package osmdoc

import (
	"math"

	"pgregory.net/rapid"
)

// GenOpt steers the generators.
type GenOpt struct {
	// WholeSeconds: element timestamps have whole seconds (osmjson/XML both
	// carry nanoseconds, this is only for readability of samples).
	WholeSeconds bool
	// UniqueTagKeys: JSON objects cannot carry duplicate keys.
	UniqueTagKeys bool
	// NoAnnotations: no way-node / member annotations, updates, committed, bounds.
	NoAnnotations bool
	// NoteFractions: note dates (created, closed, comments) may carry fractions
	// of a second. The notes XML format has whole seconds only; JSON keeps
	// nanoseconds.
	NoteFractions bool
}

var words = []string{"", "a", "highway", "name", "Main St", "é∑ü", "<&>\"'", " lead", "trail ", "tab\there", "line\nbreak", "cr\rhere", "日本語", "🙂 emoji", "a&amp;b", "]]>", "x=y&z", "--"}

// xmlRune: characters XML 1.0 can represent
func xmlRune(r rune) bool {
	return r == 0x9 || r == 0xA || r == 0xD || (r >= 0x20 && r <= 0xD7FF) || (r >= 0xE000 && r <= 0xFFFD) || (r >= 0x10000 && r <= 0x10FFFF)
}

// Str draws an XML-representable string.
func Str(t *rapid.T, l string) string {
	switch rapid.IntRange(0, 9).Draw(t, l+"?") {
	case 0:
		s := rapid.String().Draw(t, l)
		out := make([]rune, 0, len(s))
		for _, r := range s {
			if xmlRune(r) {
				out = append(out, r)
			}
		}
		return string(out)
	case 1:
		return rapid.SampledFrom(words).Draw(t, l+"a") + rapid.SampledFrom(words).Draw(t, l+"b")
	}
	return rapid.SampledFrom(words).Draw(t, l)
}

func nonEmpty(t *rapid.T, l string) string {
	s := Str(t, l)
	if s == "" {
		return "k"
	}
	return s
}

func optStr(t *rapid.T, l string) string {
	if rapid.Bool().Draw(t, l+"set") {
		return Str(t, l)
	}
	return ""
}

func genTags(t *rapid.T, o GenOpt) []Tag {
	n := rapid.IntRange(0, 4).Draw(t, "ntags")
	var out []Tag
	seen := map[string]bool{}
	for i := 0; i < n; i++ {
		k := Str(t, "k")
		if o.UniqueTagKeys && seen[k] {
			continue
		}
		seen[k] = true
		out = append(out, Tag{k, Str(t, "v")})
	}
	return out
}

// Coord draws a finite coordinate-like float (also values that need many digits).
func Coord(t *rapid.T, l string) float64 {
	switch rapid.IntRange(0, 5).Draw(t, l+"?") {
	case 0:
		return 0
	case 1:
		return float64(rapid.IntRange(-1800000000, 1800000000).Draw(t, l)) / 1e7
	case 2:
		f := rapid.Float64Range(-180, 180).Draw(t, l)
		if math.IsNaN(f) || math.IsInf(f, 0) {
			return 1
		}
		return f
	}
	return float64(rapid.IntRange(-18000, 18000).Draw(t, l)) / 100
}

// Time draws a UTC instant (unix ns) between 2005 and 2030; 0 stays "absent".
func Time(t *rapid.T, l string, whole bool) int64 {
	s := int64(rapid.IntRange(1104537600, 1893456000).Draw(t, l))
	ns := s * 1e9
	if !whole && rapid.Bool().Draw(t, l+"frac") {
		ns += int64(rapid.IntRange(0, 999999999).Draw(t, l+"ns"))
	}
	return ns
}

func optTime(t *rapid.T, l string, whole bool) int64 {
	if rapid.IntRange(0, 3).Draw(t, l+"set") == 0 {
		return 0
	}
	return Time(t, l, whole)
}

func optInt(t *rapid.T, l string, hi int) int {
	if rapid.IntRange(0, 3).Draw(t, l+"set") == 0 {
		return 0
	}
	return rapid.IntRange(1, hi).Draw(t, l)
}

func genBounds(t *rapid.T) *Bounds {
	return &Bounds{MinLat: Coord(t, "minlat"), MaxLat: Coord(t, "maxlat"), MinLon: Coord(t, "minlon"), MaxLon: Coord(t, "maxlon")}
}

func genUpdates(t *rapid.T, o GenOpt) []Update {
	if o.NoAnnotations {
		return nil
	}
	n := rapid.IntRange(0, 3).Draw(t, "nupdates")
	var out []Update
	for i := 0; i < n; i++ {
		out = append(out, Update{Index: rapid.IntRange(0, 5).Draw(t, "uidx"), Version: rapid.IntRange(0, 9).Draw(t, "uver"), T: Time(t, "ut", o.WholeSeconds),
			CS: int64(optInt(t, "ucs", 1000)), Lat: Coord(t, "ulat"), Lon: Coord(t, "ulon"), Reverse: rapid.Bool().Draw(t, "urev")})
	}
	return out
}

func genWayNodes(t *rapid.T, o GenOpt, l string) []WayNode {
	n := rapid.IntRange(0, 5).Draw(t, l+"n")
	var out []WayNode
	ann := !o.NoAnnotations && rapid.Bool().Draw(t, l+"annotated")
	for i := 0; i < n; i++ {
		wn := WayNode{Ref: int64(rapid.IntRange(1, 1<<40).Draw(t, l+"ref"))}
		if ann {
			wn.Version, wn.CS, wn.Lat, wn.Lon = optInt(t, l+"v", 99), int64(optInt(t, l+"cs", 9999)), Coord(t, l+"lat"), Coord(t, l+"lon")
		}
		out = append(out, wn)
	}
	return out
}

func optCommitted(t *rapid.T, o GenOpt) int64 {
	if o.NoAnnotations || rapid.IntRange(0, 2).Draw(t, "committed?") != 0 {
		return 0
	}
	return Time(t, "committed", o.WholeSeconds)
}

func optBounds(t *rapid.T, o GenOpt) *Bounds {
	if o.NoAnnotations || rapid.IntRange(0, 3).Draw(t, "ebounds?") != 0 {
		return nil
	}
	return genBounds(t)
}

func GenNode(t *rapid.T, o GenOpt) *Node {
	return &Node{ID: int64(rapid.IntRange(-5, 1<<40).Draw(t, "id")), Lat: Coord(t, "lat"), Lon: Coord(t, "lon"), User: optStr(t, "user"), UID: genUID(t, "uid"),
		Visible: rapid.Bool().Draw(t, "visible"), Version: optInt(t, "version", 500), CS: int64(optInt(t, "cs", 1<<40)), T: optTime(t, "ts", o.WholeSeconds),
		Tags: genTags(t, o), Committed: optCommitted(t, o)}
}

func GenWay(t *rapid.T, o GenOpt) *Way {
	return &Way{ID: int64(rapid.IntRange(-5, 1<<40).Draw(t, "id")), User: optStr(t, "user"), UID: genUID(t, "uid"),
		Visible: rapid.Bool().Draw(t, "visible"), Version: optInt(t, "version", 500), CS: int64(optInt(t, "cs", 1<<40)), T: optTime(t, "ts", o.WholeSeconds),
		Nodes: genWayNodes(t, o, "wn"), Tags: genTags(t, o), Committed: optCommitted(t, o), Updates: genUpdates(t, o), Bounds: optBounds(t, o)}
}

func GenRelation(t *rapid.T, o GenOpt) *Relation {
	r := &Relation{ID: int64(rapid.IntRange(-5, 1<<40).Draw(t, "id")), User: optStr(t, "user"), UID: genUID(t, "uid"),
		Visible: rapid.Bool().Draw(t, "visible"), Version: optInt(t, "version", 500), CS: int64(optInt(t, "cs", 1<<40)), T: optTime(t, "ts", o.WholeSeconds),
		Tags: genTags(t, o), Committed: optCommitted(t, o), Updates: genUpdates(t, o), Bounds: optBounds(t, o)}
	n := rapid.IntRange(0, 4).Draw(t, "nmembers")
	for i := 0; i < n; i++ {
		m := Member{Type: rapid.SampledFrom([]string{"node", "way", "relation"}).Draw(t, "mtype"), Ref: int64(rapid.IntRange(1, 1<<40).Draw(t, "mref")), Role: Str(t, "role")}
		if !o.NoAnnotations && rapid.Bool().Draw(t, "mann") {
			m.Version, m.CS, m.Lat, m.Lon = optInt(t, "mv", 99), int64(optInt(t, "mcs", 9999)), Coord(t, "mlat"), Coord(t, "mlon")
			m.Orientation = rapid.SampledFrom([]int{0, 1, -1}).Draw(t, "orient")
			if m.Type == "way" && rapid.Bool().Draw(t, "mnodes") {
				m.Nodes = genWayNodes(t, o, "mn")
			}
		}
		r.Members = append(r.Members, m)
	}
	return r
}

func GenChangeset(t *rapid.T, o GenOpt) *Changeset {
	c := &Changeset{ID: int64(rapid.IntRange(1, 1<<40).Draw(t, "id")), User: optStr(t, "user"), UID: genUID(t, "uid"),
		CreatedAt: optTime(t, "created", o.WholeSeconds), ClosedAt: optTime(t, "closed", o.WholeSeconds), Open: rapid.Bool().Draw(t, "open"),
		ChangesCount: optInt(t, "nchanges", 50000), CommentsCount: optInt(t, "ncomments", 50), Tags: genTags(t, o)}
	if rapid.Bool().Draw(t, "bbox") {
		c.MinLat, c.MaxLat, c.MinLon, c.MaxLon = Coord(t, "a"), Coord(t, "b"), Coord(t, "c"), Coord(t, "d")
	}
	n := 0
	if rapid.Bool().Draw(t, "discussion") {
		n = rapid.IntRange(1, 3).Draw(t, "ndisc")
	}
	for i := 0; i < n; i++ {
		c.Discussion = append(c.Discussion, Comment{User: optStr(t, "cuser"), UID: int64(optInt(t, "cuid", 1<<30)), T: optTime(t, "cdate", o.WholeSeconds), Text: Str(t, "ctext")})
	}
	return c
}

// genUID draws a user id: often from a tiny pool, so that several elements of
// one document share a uid while carrying different user names (renamed
// accounts in history extracts).
func genUID(t *rapid.T, l string) int64 {
	if rapid.Bool().Draw(t, l+"small") {
		return int64(rapid.IntRange(0, 3).Draw(t, l))
	}
	return int64(optInt(t, l, 1<<30))
}

func GenNote(t *rapid.T, o GenOpt) *Note {
	// note dates use the notes API format, which has whole seconds
	n := &Note{ID: int64(rapid.IntRange(1, 1<<40).Draw(t, "id")), Lat: Coord(t, "lat"), Lon: Coord(t, "lon"), URL: optStr(t, "url"), CommentURL: optStr(t, "curl"),
		CloseURL: optStr(t, "clurl"), ReopenURL: optStr(t, "rurl"), DateCreated: optTime(t, "created", !o.NoteFractions), DateClosed: optTime(t, "closedAt", !o.NoteFractions),
		Status: rapid.SampledFrom([]string{"", "open", "closed"}).Draw(t, "status")}
	k := rapid.IntRange(0, 3).Draw(t, "ncomments")
	if rapid.IntRange(0, 5).Draw(t, "sparse") == 0 {
		// a remark-style note: position and texts only, no id, status, dates or comments
		n.ID, n.Status, n.DateCreated, n.DateClosed, k = 0, "", 0, 0, 0
	}
	for i := 0; i < k; i++ {
		n.Comments = append(n.Comments, NoteComment{Date: optTime(t, "cdate", !o.NoteFractions), UID: int64(optInt(t, "cuid", 1<<30)), User: optStr(t, "cuser"), UserURL: optStr(t, "cuurl"),
			Action: rapid.SampledFrom([]string{"", "opened", "commented", "closed"}).Draw(t, "action"), Text: optStr(t, "text"), HTML: optStr(t, "html")})
	}
	return n
}

func GenUser(t *rapid.T, o GenOpt) *User {
	u := &User{ID: int64(rapid.IntRange(1, 1<<40).Draw(t, "id")), Name: optStr(t, "name"), Description: optStr(t, "desc"), ImgHref: optStr(t, "img"),
		ChangesetsCount: optInt(t, "ncs", 9999), TracesCount: optInt(t, "ntr", 999), HomeZoom: optInt(t, "zoom", 19),
		BlocksCount: optInt(t, "blocks", 9), BlocksActive: optInt(t, "active", 9), MsgRecvCount: optInt(t, "mrecv", 99), MsgRecvUnread: optInt(t, "munread", 99), MsgSent: optInt(t, "msent", 99),
		CreatedAt: optTime(t, "created", o.WholeSeconds)}
	if rapid.Bool().Draw(t, "home") {
		u.HomeLat, u.HomeLon = Coord(t, "hlat"), Coord(t, "hlon")
	}
	k := rapid.IntRange(0, 3).Draw(t, "nlang")
	for i := 0; i < k; i++ {
		u.Languages = append(u.Languages, rapid.SampledFrom([]string{"en", "de-DE", "fr", "日本"}).Draw(t, "lang"))
	}
	return u
}

// GenItem draws one item of the given kinds (subset of n w r c N u b).
func GenItem(t *rapid.T, o GenOpt, kinds string) Item {
	k := kinds[rapid.IntRange(0, len(kinds)-1).Draw(t, "kind")]
	switch k {
	case 'n':
		return Item{Node: GenNode(t, o)}
	case 'w':
		return Item{Way: GenWay(t, o)}
	case 'r':
		return Item{Relation: GenRelation(t, o)}
	case 'c':
		return Item{Changeset: GenChangeset(t, o)}
	case 'N':
		return Item{Note: GenNote(t, o)}
	case 'u':
		return Item{User: GenUser(t, o)}
	}
	return Item{Bounds: genBounds(t)}
}

// GenItems draws a list of items; at most one bounds.
func GenItems(t *rapid.T, o GenOpt, kinds string, max int) []Item {
	n := rapid.IntRange(0, max).Draw(t, "nitems")
	var out []Item
	bounds := false
	for i := 0; i < n; i++ {
		it := GenItem(t, o, kinds)
		if it.Bounds != nil {
			if bounds {
				continue
			}
			bounds = true
		}
		out = append(out, it)
	}
	return out
}

func GenDoc(t *rapid.T, o GenOpt, kinds string) *Doc {
	return &Doc{Version: rapid.SampledFrom([]string{"", "0.6", "0.6", "1"}).Draw(t, "dversion"), Generator: optStr(t, "generator"), Copyright: optStr(t, "copyright"),
		Attribution: optStr(t, "attribution"), License: optStr(t, "license"), Items: GenItems(t, o, kinds, 7)}
}

func GenChange(t *rapid.T, o GenOpt) *ChangeDoc {
	c := &ChangeDoc{Version: rapid.SampledFrom([]string{"", "0.6"}).Draw(t, "cversion"), Generator: optStr(t, "generator"), Copyright: optStr(t, "copyright"),
		Attribution: optStr(t, "attribution"), License: optStr(t, "license")}
	n := rapid.IntRange(0, 6).Draw(t, "nblocks")
	hasBounds := map[string]bool{}
	for i := 0; i < n; i++ {
		b := Block{Action: rapid.SampledFrom([]string{"create", "modify", "delete"}).Draw(t, "action")}
		kinds := "nwr"
		if !hasBounds[b.Action] && rapid.IntRange(0, 2).Draw(t, "bb") == 0 {
			kinds = "nwrb"
		}
		b.Items = GenItems(t, o, kinds, 4)
		for _, it := range b.Items {
			if it.Bounds != nil {
				hasBounds[b.Action] = true
			}
		}
		c.Blocks = append(c.Blocks, b)
	}
	return c
}

// GenDiffRich is GenDiff whose old/new blocks may also carry bounds,
// changesets, notes and users (Action.Old/New are full OSM values).
func GenDiffRich(t *rapid.T, o GenOpt) *DiffDoc {
	d := GenDiff(t, o)
	for i := range d.Actions {
		a := &d.Actions[i]
		if a.Type == "create" || rapid.IntRange(0, 2).Draw(t, "rich") != 0 {
			continue
		}
		a.Old = append(a.Old, GenItems(t, o, "nwrbcNu", 3)...)
		a.New = append(a.New, GenItems(t, o, "nwrbcNu", 3)...)
	}
	return d
}

func GenDiff(t *rapid.T, o GenOpt) *DiffDoc {
	d := &DiffDoc{}
	n := rapid.IntRange(0, 5).Draw(t, "nactions")
	for i := 0; i < n; i++ {
		a := Action{Type: rapid.SampledFrom([]string{"create", "modify", "delete"}).Draw(t, "atype")}
		if a.Type == "create" {
			it := GenItem(t, o, "nwr")
			a.Elem = &it
		} else {
			// old/new of one element kind each, as augmented diffs have
			k := rapid.SampledFrom([]string{"n", "w", "r"}).Draw(t, "akind")
			a.Old = []Item{GenItem(t, o, k)}
			a.New = []Item{GenItem(t, o, k)}
		}
		d.Actions = append(d.Actions, a)
	}
	return d
}

// GenLayout draws the writer's layout choices.
func GenLayout(t *rapid.T) Layout {
	return Layout{Seed: int64(rapid.IntRange(1, 1<<30).Draw(t, "layoutSeed")), ShuffleAttrs: rapid.Bool().Draw(t, "shuffle"), SingleQuotes: rapid.Bool().Draw(t, "quotes"),
		Expand: rapid.Bool().Draw(t, "expand"), Whitespace: rapid.Bool().Draw(t, "ws"), Declaration: rapid.Bool().Draw(t, "decl"), CharRefs: rapid.Bool().Draw(t, "charrefs"),
		UnknownAttrs: rapid.Bool().Draw(t, "uattrs"), UnknownElems: rapid.Bool().Draw(t, "uelems"), FloatZeros: rapid.Bool().Draw(t, "fzeros"), TimeVariants: rapid.Bool().Draw(t, "tvariants"),
		BoolDigits: rapid.IntRange(0, 3).Draw(t, "booldigits") == 0, Namespace: rapid.SampledFrom([]int{0, 0, 0, 1, 2}).Draw(t, "namespace")}
}
