package osmdoc

import (
	"fmt"
	"math/rand"
	"strconv"
	"strings"
	"time"
)

// Layout holds the layout choices of the independent XML writer. All choices
// derive deterministically from Seed so that a case is replayable.
type Layout struct {
	Seed         int64
	ShuffleAttrs bool
	SingleQuotes bool // mix ' and "
	Expand       bool // write <x ...></x> instead of <x .../> for empty elements
	Whitespace   bool // newlines, indentation, comments between elements
	Declaration  bool
	CharRefs     bool // use numeric character references / CDATA where allowed
	UnknownAttrs bool
	UnknownElems bool // unknown child elements inside known ones and unknown top-level elements
	FloatZeros   bool // trailing zeros on floats
	TimeVariants bool // fractional seconds are always kept; this adds equivalent zone offsets
	BoolDigits   bool // 1/0 instead of true/false (xsd:boolean)
	Namespace    int  // 0 none; 1 the root declares a default namespace (inherited by every element); 2 the root declares an unused prefixed namespace
}

type xw struct {
	sb  strings.Builder
	l   Layout
	rnd *rand.Rand
}

func newXW(l Layout) *xw { return &xw{l: l, rnd: rand.New(rand.NewSource(l.Seed))} }

type attr struct{ k, v string }

func (w *xw) escape(s string, inAttr bool, quote byte) string {
	var sb strings.Builder
	for _, r := range s {
		switch {
		case r == '&':
			if w.l.CharRefs && w.rnd.Intn(2) == 0 {
				sb.WriteString("&#38;")
			} else {
				sb.WriteString("&amp;")
			}
		case r == '<':
			if w.l.CharRefs && w.rnd.Intn(2) == 0 {
				sb.WriteString("&#x3C;")
			} else {
				sb.WriteString("&lt;")
			}
		case r == '>':
			sb.WriteString("&gt;")
		case r == '"' && (inAttr && quote == '"' || w.rnd.Intn(3) == 0):
			sb.WriteString("&quot;")
		case r == '\'' && (inAttr && quote == '\'' || w.rnd.Intn(3) == 0):
			sb.WriteString("&apos;")
		case r == '\t' || r == '\n' || r == '\r':
			// literal whitespace is normalised by XML parsers in attributes, and \r in text
			fmt.Fprintf(&sb, "&#x%X;", r)
		case w.l.CharRefs && w.rnd.Intn(6) == 0:
			if w.rnd.Intn(2) == 0 {
				fmt.Fprintf(&sb, "&#%d;", r)
			} else {
				fmt.Fprintf(&sb, "&#x%x;", r)
			}
		default:
			sb.WriteRune(r)
		}
	}
	return sb.String()
}

func (w *xw) ws() {
	if !w.l.Whitespace {
		return
	}
	switch w.rnd.Intn(5) {
	case 0:
		w.sb.WriteString("\n")
	case 1:
		w.sb.WriteString("\n  ")
	case 2:
		w.sb.WriteString(" <!-- a comment with <tags> & ampersands --> ")
	case 3:
		w.sb.WriteString("\r\n\t")
	}
}

var unknownAttrNames = []string{"extra", "x-src", "uuid", "geom"}

func (w *xw) open(name string, attrs []attr, empty bool) {
	w.sb.WriteString("<" + name)
	if w.l.UnknownAttrs && w.rnd.Intn(3) == 0 {
		attrs = append(attrs, attr{unknownAttrNames[w.rnd.Intn(len(unknownAttrNames))], "u&<\"'"})
	}
	if w.l.ShuffleAttrs {
		w.rnd.Shuffle(len(attrs), func(i, j int) { attrs[i], attrs[j] = attrs[j], attrs[i] })
	}
	for _, a := range attrs {
		q := byte('"')
		if w.l.SingleQuotes && w.rnd.Intn(2) == 0 {
			q = '\''
		}
		sep := " "
		if w.l.Whitespace && w.rnd.Intn(6) == 0 {
			sep = "\n   "
		}
		w.sb.WriteString(sep + a.k + "=" + string(q) + w.escape(a.v, true, q) + string(q))
	}
	if empty && !w.l.Expand {
		w.sb.WriteString("/>")
		return
	}
	w.sb.WriteString(">")
	if empty {
		// an element without content may still hold whitespace and comments
		// between its tags
		if w.l.Whitespace && w.rnd.Intn(3) == 0 {
			w.sb.WriteString([]string{" ", "\n  ", "<!-- empty -->", "\n<!-- a --> \n"}[w.rnd.Intn(4)])
		}
		w.sb.WriteString("</" + name + ">")
	}
}

func (w *xw) close(name string) { w.sb.WriteString("</" + name + ">") }

func (w *xw) text(name, s string) {
	w.sb.WriteString("<" + name + ">")
	w.chars(s, true)
	w.sb.WriteString("</" + name + ">")
}

// chars writes character data, possibly in several chunks: a comment or a
// CDATA boundary in the middle of a text does not change the text.
func (w *xw) chars(s string, maySplit bool) {
	if rs := []rune(s); maySplit && w.l.CharRefs && w.l.Whitespace && len(rs) >= 2 && w.rnd.Intn(4) == 0 {
		k := 1 + w.rnd.Intn(len(rs)-1)
		w.chars(string(rs[:k]), false)
		if w.rnd.Intn(2) == 0 {
			w.sb.WriteString("<!-- c -->")
		}
		w.chars(string(rs[k:]), false)
		return
	}
	if w.l.CharRefs && s != "" && !strings.Contains(s, "]]>") && !strings.ContainsAny(s, "\r") && w.rnd.Intn(3) == 0 {
		w.sb.WriteString("<![CDATA[" + s + "]]>")
	} else {
		w.sb.WriteString(w.escape(s, false, 0))
	}
}

func (w *xw) unknownChild() {
	if !w.l.UnknownElems || w.rnd.Intn(3) != 0 {
		return
	}
	switch w.rnd.Intn(5) {
	case 3:
		// names that are void elements in HTML, written as ordinary XML
		// start/end pairs with something in between
		w.sb.WriteString([]string{`<meta name="x"> </meta>`, `<link rel="self" href="http://x/"><!-- l --></link>`, "<br>\n</br>", `<img src="i.png"> </img>`, `<input><param k="v"/></input>`}[w.rnd.Intn(5)])
	case 4:
		w.sb.WriteString(`<hr/><col span="2"></col>`)
	case 0:
		w.sb.WriteString(`<x-meta a="1"/>`)
	case 1:
		w.sb.WriteString(`<remark>free <b>text</b> &amp; more</remark>`)
	case 2:
		w.sb.WriteString(`<geometry><pt lat="1" lon="2"/></geometry>`)
	}
}

func (w *xw) f(v float64) string {
	s := strconv.FormatFloat(v, 'f', -1, 64)
	if w.l.FloatZeros && w.rnd.Intn(2) == 0 {
		if !strings.Contains(s, ".") {
			s += "."
		}
		s += "000"
	}
	return s
}

func (w *xw) b(v bool) string {
	if w.l.BoolDigits && w.rnd.Intn(2) == 0 {
		if v {
			return "1"
		}
		return "0"
	}
	return strconv.FormatBool(v)
}

func (w *xw) t(ns int64) string {
	tt := T(ns)
	if w.l.TimeVariants {
		switch w.rnd.Intn(3) {
		case 1:
			tt = tt.In(time.FixedZone("", 2*3600))
		case 2:
			tt = tt.In(time.FixedZone("", -(5*3600 + 30*60)))
		}
	}
	return tt.Format(time.RFC3339Nano)
}

func i64(v int64) string { return strconv.FormatInt(v, 10) }

// common element attributes: only non-zero values are written (absent = zero)
func (w *xw) elemAttrs(id int64, user string, uid int64, visible bool, version int, cs int64, ts int64, committed int64) []attr {
	a := []attr{{"id", i64(id)}}
	if user != "" {
		a = append(a, attr{"user", user})
	}
	if uid != 0 {
		a = append(a, attr{"uid", i64(uid)})
	}
	if visible || w.rnd.Intn(2) == 0 {
		a = append(a, attr{"visible", w.b(visible)})
	}
	if version != 0 {
		a = append(a, attr{"version", strconv.Itoa(version)})
	}
	if cs != 0 {
		a = append(a, attr{"changeset", i64(cs)})
	}
	if ts != 0 {
		a = append(a, attr{"timestamp", w.t(ts)})
	}
	if committed != 0 {
		a = append(a, attr{"committed", w.t(committed)})
	}
	return a
}

func (w *xw) tags(ts []Tag) {
	for _, t := range ts {
		w.ws()
		w.open("tag", []attr{{"k", t.K}, {"v", t.V}}, true)
	}
}

func (w *xw) bounds(b *Bounds) {
	w.open("bounds", []attr{{"minlat", w.f(b.MinLat)}, {"minlon", w.f(b.MinLon)}, {"maxlat", w.f(b.MaxLat)}, {"maxlon", w.f(b.MaxLon)}}, true)
}

func (w *xw) wayNode(n WayNode) {
	a := []attr{{"ref", i64(n.Ref)}}
	if n.Version != 0 {
		a = append(a, attr{"version", strconv.Itoa(n.Version)})
	}
	if n.CS != 0 {
		a = append(a, attr{"changeset", i64(n.CS)})
	}
	if n.Lat != 0 {
		a = append(a, attr{"lat", w.f(n.Lat)})
	}
	if n.Lon != 0 {
		a = append(a, attr{"lon", w.f(n.Lon)})
	}
	w.open("nd", a, true)
}

func (w *xw) update(u Update) {
	a := []attr{{"index", strconv.Itoa(u.Index)}, {"version", strconv.Itoa(u.Version)}, {"timestamp", w.t(u.T)}}
	if u.CS != 0 {
		a = append(a, attr{"changeset", i64(u.CS)})
	}
	if u.Lat != 0 {
		a = append(a, attr{"lat", w.f(u.Lat)})
	}
	if u.Lon != 0 {
		a = append(a, attr{"lon", w.f(u.Lon)})
	}
	if u.Reverse {
		a = append(a, attr{"reverse", w.b(true)})
	}
	w.open("update", a, true)
}

func (w *xw) node(n *Node) {
	a := w.elemAttrs(n.ID, n.User, n.UID, n.Visible, n.Version, n.CS, n.T, n.Committed)
	a = append(a, attr{"lat", w.f(n.Lat)}, attr{"lon", w.f(n.Lon)})
	empty := len(n.Tags) == 0 && !w.l.UnknownElems
	w.open("node", a, empty)
	if empty {
		return
	}
	w.unknownChild()
	w.tags(n.Tags)
	w.ws()
	w.close("node")
}

func (w *xw) way(x *Way) {
	a := w.elemAttrs(x.ID, x.User, x.UID, x.Visible, x.Version, x.CS, x.T, x.Committed)
	w.open("way", a, false)
	// children of different names may interleave freely
	type child = func()
	var cs []child
	for _, n := range x.Nodes {
		n := n
		cs = append(cs, func() { w.wayNode(n) })
	}
	var ts []child
	for _, t := range x.Tags {
		t := t
		ts = append(ts, func() { w.open("tag", []attr{{"k", t.K}, {"v", t.V}}, true) })
	}
	var us []child
	for _, u := range x.Updates {
		u := u
		us = append(us, func() { w.update(u) })
	}
	w.interleave(cs, ts, us)
	if x.Bounds != nil {
		w.ws()
		w.bounds(x.Bounds)
	}
	w.unknownChild()
	w.ws()
	w.close("way")
}

// interleave writes several ordered child lists, merging them in a random
// interleaving when attribute shuffling is on (relative order within a list
// is what the data model keeps).
func (w *xw) interleave(lists ...[]func()) {
	idx := make([]int, len(lists))
	for {
		var avail []int
		for i, l := range lists {
			if idx[i] < len(l) {
				avail = append(avail, i)
			}
		}
		if len(avail) == 0 {
			return
		}
		pick := avail[0]
		if w.l.ShuffleAttrs {
			pick = avail[w.rnd.Intn(len(avail))]
		}
		w.ws()
		lists[pick][idx[pick]]()
		idx[pick]++
	}
}

func (w *xw) relation(x *Relation) {
	a := w.elemAttrs(x.ID, x.User, x.UID, x.Visible, x.Version, x.CS, x.T, x.Committed)
	w.open("relation", a, false)
	var ms, ts, us []func()
	for _, m := range x.Members {
		m := m
		ms = append(ms, func() {
			a := []attr{{"type", m.Type}, {"ref", i64(m.Ref)}, {"role", m.Role}}
			if m.Version != 0 {
				a = append(a, attr{"version", strconv.Itoa(m.Version)})
			}
			if m.CS != 0 {
				a = append(a, attr{"changeset", i64(m.CS)})
			}
			if m.Lat != 0 {
				a = append(a, attr{"lat", w.f(m.Lat)})
			}
			if m.Lon != 0 {
				a = append(a, attr{"lon", w.f(m.Lon)})
			}
			if m.Orientation != 0 {
				a = append(a, attr{"orientation", strconv.Itoa(m.Orientation)})
			}
			if len(m.Nodes) == 0 {
				w.open("member", a, true)
				return
			}
			w.open("member", a, false)
			for _, n := range m.Nodes {
				w.ws()
				w.wayNode(n)
			}
			w.close("member")
		})
	}
	for _, t := range x.Tags {
		t := t
		ts = append(ts, func() { w.open("tag", []attr{{"k", t.K}, {"v", t.V}}, true) })
	}
	for _, u := range x.Updates {
		u := u
		us = append(us, func() { w.update(u) })
	}
	w.interleave(ms, ts, us)
	if x.Bounds != nil {
		w.ws()
		w.bounds(x.Bounds)
	}
	w.unknownChild()
	w.ws()
	w.close("relation")
}

func (w *xw) changeset(c *Changeset) {
	a := []attr{{"id", i64(c.ID)}}
	if c.User != "" {
		a = append(a, attr{"user", c.User})
	}
	if c.UID != 0 {
		a = append(a, attr{"uid", i64(c.UID)})
	}
	if c.CreatedAt != 0 {
		a = append(a, attr{"created_at", w.t(c.CreatedAt)})
	}
	if c.ClosedAt != 0 {
		a = append(a, attr{"closed_at", w.t(c.ClosedAt)})
	}
	if c.Open || w.rnd.Intn(2) == 0 {
		a = append(a, attr{"open", w.b(c.Open)})
	}
	if c.ChangesCount != 0 {
		a = append(a, attr{"num_changes", strconv.Itoa(c.ChangesCount)})
	}
	if c.CommentsCount != 0 {
		a = append(a, attr{"comments_count", strconv.Itoa(c.CommentsCount)})
	}
	for _, kv := range []struct {
		k string
		v float64
	}{{"min_lat", c.MinLat}, {"max_lat", c.MaxLat}, {"min_lon", c.MinLon}, {"max_lon", c.MaxLon}} {
		if kv.v != 0 {
			a = append(a, attr{kv.k, w.f(kv.v)})
		}
	}
	empty := len(c.Tags) == 0 && len(c.Discussion) == 0
	w.open("changeset", a, empty)
	if empty {
		return
	}
	w.tags(c.Tags)
	if len(c.Discussion) > 0 {
		w.ws()
		w.open("discussion", nil, false)
		for _, cm := range c.Discussion {
			w.ws()
			a := []attr{}
			if cm.User != "" {
				a = append(a, attr{"user", cm.User})
			}
			if cm.UID != 0 {
				a = append(a, attr{"uid", i64(cm.UID)})
			}
			if cm.T != 0 {
				a = append(a, attr{"date", w.t(cm.T)})
			}
			w.open("comment", a, false)
			w.ws()
			w.text("text", cm.Text)
			w.ws()
			w.close("comment")
		}
		w.ws()
		w.close("discussion")
	}
	w.ws()
	w.close("changeset")
}

func noteDate(ns int64) string { return T(ns).Format("2006-01-02 15:04:05") + " UTC" }

func (w *xw) note(n *Note) {
	w.open("note", []attr{{"lat", w.f(n.Lat)}, {"lon", w.f(n.Lon)}}, false)
	var cs []func()
	if n.ID != 0 || w.rnd.Intn(2) == 0 {
		cs = append(cs, func() { w.text("id", i64(n.ID)) })
	}
	for _, kv := range []struct{ k, v string }{{"url", n.URL}, {"comment_url", n.CommentURL}, {"close_url", n.CloseURL}, {"reopen_url", n.ReopenURL}, {"status", n.Status}} {
		kv := kv
		if kv.v != "" {
			cs = append(cs, func() { w.text(kv.k, kv.v) })
		}
	}
	if n.DateCreated != 0 {
		cs = append(cs, func() { w.text("date_created", noteDate(n.DateCreated)) })
	}
	if n.DateClosed != 0 {
		cs = append(cs, func() { w.text("date_closed", noteDate(n.DateClosed)) })
	}
	if len(n.Comments) > 0 {
		cs = append(cs, func() {
			w.open("comments", nil, false)
			for _, c := range n.Comments {
				w.ws()
				w.open("comment", nil, false)
				var fs []func()
				if c.Date != 0 {
					d := c.Date
					fs = append(fs, func() { w.text("date", noteDate(d)) })
				}
				if c.UID != 0 {
					u := c.UID
					fs = append(fs, func() { w.text("uid", i64(u)) })
				}
				for _, kv := range []struct{ k, v string }{{"user", c.User}, {"user_url", c.UserURL}, {"action", c.Action}, {"text", c.Text}, {"html", c.HTML}} {
					kv := kv
					if kv.v != "" {
						fs = append(fs, func() { w.text(kv.k, kv.v) })
					}
				}
				if w.l.ShuffleAttrs {
					w.rnd.Shuffle(len(fs), func(i, j int) { fs[i], fs[j] = fs[j], fs[i] })
				}
				for _, f := range fs {
					w.ws()
					f()
				}
				w.ws()
				w.close("comment")
			}
			w.ws()
			w.close("comments")
		})
	}
	if w.l.ShuffleAttrs {
		w.rnd.Shuffle(len(cs), func(i, j int) { cs[i], cs[j] = cs[j], cs[i] })
	}
	for _, f := range cs {
		w.ws()
		f()
	}
	w.unknownChild()
	w.ws()
	w.close("note")
}

func (w *xw) user(u *User) {
	a := []attr{{"id", i64(u.ID)}}
	if u.Name != "" {
		a = append(a, attr{"display_name", u.Name})
	}
	if u.CreatedAt != 0 {
		a = append(a, attr{"account_created", w.t(u.CreatedAt)})
	}
	w.open("user", a, false)
	var cs []func()
	if u.Description != "" {
		cs = append(cs, func() { w.text("description", u.Description) })
	}
	if u.ImgHref != "" {
		cs = append(cs, func() { w.open("img", []attr{{"href", u.ImgHref}}, true) })
	}
	if u.ChangesetsCount != 0 {
		cs = append(cs, func() { w.open("changesets", []attr{{"count", strconv.Itoa(u.ChangesetsCount)}}, true) })
	}
	if u.TracesCount != 0 {
		cs = append(cs, func() { w.open("traces", []attr{{"count", strconv.Itoa(u.TracesCount)}}, true) })
	}
	if u.HomeLat != 0 || u.HomeLon != 0 || u.HomeZoom != 0 {
		cs = append(cs, func() {
			w.open("home", []attr{{"lat", w.f(u.HomeLat)}, {"lon", w.f(u.HomeLon)}, {"zoom", strconv.Itoa(u.HomeZoom)}}, true)
		})
	}
	if len(u.Languages) > 0 {
		cs = append(cs, func() {
			w.open("languages", nil, false)
			for _, l := range u.Languages {
				w.ws()
				w.text("lang", l)
			}
			w.ws()
			w.close("languages")
		})
	}
	if u.BlocksCount != 0 || u.BlocksActive != 0 {
		cs = append(cs, func() {
			w.open("blocks", nil, false)
			w.open("received", []attr{{"count", strconv.Itoa(u.BlocksCount)}, {"active", strconv.Itoa(u.BlocksActive)}}, true)
			w.close("blocks")
		})
	}
	if u.MsgRecvCount != 0 || u.MsgRecvUnread != 0 || u.MsgSent != 0 {
		cs = append(cs, func() {
			w.open("messages", nil, false)
			w.open("received", []attr{{"count", strconv.Itoa(u.MsgRecvCount)}, {"unread", strconv.Itoa(u.MsgRecvUnread)}}, true)
			w.ws()
			w.open("sent", []attr{{"count", strconv.Itoa(u.MsgSent)}}, true)
			w.close("messages")
		})
	}
	if w.l.ShuffleAttrs {
		w.rnd.Shuffle(len(cs), func(i, j int) { cs[i], cs[j] = cs[j], cs[i] })
	}
	for _, f := range cs {
		w.ws()
		f()
	}
	w.ws()
	w.close("user")
}

func (w *xw) item(it Item) {
	switch {
	case it.Node != nil:
		w.node(it.Node)
	case it.Way != nil:
		w.way(it.Way)
	case it.Relation != nil:
		w.relation(it.Relation)
	case it.Changeset != nil:
		w.changeset(it.Changeset)
	case it.Note != nil:
		w.note(it.Note)
	case it.User != nil:
		w.user(it.User)
	case it.Bounds != nil:
		w.bounds(it.Bounds)
	}
}

func (w *xw) items(items []Item) {
	for _, it := range items {
		w.ws()
		w.item(it)
		if w.l.UnknownElems && w.rnd.Intn(4) == 0 {
			// unknown top-level elements never contain OSM element names: the streaming
			// scanner documents that it dispatches on element names at any depth
			w.ws()
			w.sb.WriteString([]string{`<x-stats count="3"><bucket n="1">a &amp; b</bucket></x-stats>`, `<meta osm_base="2020-01-01T00:00:00Z"> </meta>`, "<link rel=\"next\">\n<!-- c --></link>"}[w.rnd.Intn(3)])
		}
	}
	w.ws()
}

func (w *xw) rootAttrs(version, generator, copyright, attribution, license string) []attr {
	var a []attr
	for _, kv := range []struct{ k, v string }{{"version", version}, {"generator", generator}, {"copyright", copyright}, {"attribution", attribution}, {"license", license}} {
		if kv.v != "" {
			a = append(a, attr{kv.k, kv.v})
		}
	}
	return w.ns(a)
}

// ns adds the namespace declaration of the layout to the root's attributes.
func (w *xw) ns(a []attr) []attr {
	switch w.l.Namespace {
	case 1:
		a = append(a, attr{"xmlns", "http://openstreetmap.org/osm/0.6"})
	case 2:
		a = append(a, attr{"xmlns:xsi", "http://www.w3.org/2001/XMLSchema-instance"})
	}
	return a
}

func (w *xw) decl() {
	if w.l.Declaration {
		w.sb.WriteString(`<?xml version="1.0" encoding="UTF-8"?>`)
		w.ws()
	}
}

// RenderOSM writes an <osm> document in document order.
func RenderOSM(d *Doc, l Layout) string {
	w := newXW(l)
	w.decl()
	w.open("osm", w.rootAttrs(d.Version, d.Generator, d.Copyright, d.Attribution, d.License), false)
	w.items(d.Items)
	w.close("osm")
	return w.sb.String()
}

// RenderChange writes an osmChange document.
func RenderChange(d *ChangeDoc, l Layout) string {
	w := newXW(l)
	w.decl()
	w.open("osmChange", w.rootAttrs(d.Version, d.Generator, d.Copyright, d.Attribution, d.License), false)
	for _, b := range d.Blocks {
		w.ws()
		w.open(b.Action, nil, false)
		w.items(b.Items)
		w.close(b.Action)
	}
	w.ws()
	w.close("osmChange")
	return w.sb.String()
}

// RenderDiff writes an augmented diff document.
func RenderDiff(d *DiffDoc, l Layout) string {
	w := newXW(l)
	w.decl()
	w.open("osm", w.ns([]attr{{"version", "0.6"}, {"generator", "augmented diff"}}), false)
	for _, a := range d.Actions {
		w.ws()
		w.open("action", []attr{{"type", a.Type}}, false)
		w.unknownChild() // overpass writes e.g. <meta/>-like children here too; they are skipped
		if a.Elem != nil {
			w.ws()
			w.item(*a.Elem)
		}
		if a.Type != "create" {
			w.ws()
			w.open("old", nil, false)
			w.items(a.Old)
			w.close("old")
			w.ws()
			w.unknownChild()
			w.open("new", nil, false)
			w.items(a.New)
			w.close("new")
		}
		w.ws()
		w.unknownChild()
		w.close("action")
	}
	w.ws()
	w.close("osm")
	return w.sb.String()
}
