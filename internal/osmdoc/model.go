// Package osmdoc is an independent model of OSM documents (XML and osmjson):
// plain structs for every element kind with all optional parts, rapid
// generators, converters to the library's values, semantic comparers, and
// independent writers (xml.go, json.go) that know the wire names from the
// format descriptions rather than from the library's struct tags.
package osmdoc

import (
	"fmt"
	"math"
	"time"

	"github.com/paulmach/orb"
	"github.com/paulmach/osm"
)

type Tag struct{ K, V string }

type Bounds struct{ MinLat, MaxLat, MinLon, MaxLon float64 }

// times are unix nanoseconds; 0 = zero time (absent)
type Update struct {
	Index, Version int
	T              int64
	CS             int64
	Lat, Lon       float64
	Reverse        bool
}

type Node struct {
	ID        int64
	Lat, Lon  float64
	User      string
	UID       int64
	Visible   bool
	Version   int
	CS        int64
	T         int64
	Tags      []Tag
	Committed int64 // 0 = absent
}

type WayNode struct {
	Ref      int64
	Version  int
	CS       int64
	Lat, Lon float64
}

type Way struct {
	ID        int64
	User      string
	UID       int64
	Visible   bool
	Version   int
	CS        int64
	T         int64
	Nodes     []WayNode
	Tags      []Tag
	Committed int64
	Updates   []Update
	Bounds    *Bounds
}

type Member struct {
	Type        string
	Ref         int64
	Role        string
	Version     int
	CS          int64
	Lat, Lon    float64
	Orientation int
	Nodes       []WayNode
}

type Relation struct {
	ID        int64
	User      string
	UID       int64
	Visible   bool
	Version   int
	CS        int64
	T         int64
	Members   []Member
	Tags      []Tag
	Committed int64
	Updates   []Update
	Bounds    *Bounds
}

type Comment struct {
	User string
	UID  int64
	T    int64
	Text string
}

type Changeset struct {
	ID                             int64
	User                           string
	UID                            int64
	CreatedAt, ClosedAt            int64
	Open                           bool
	ChangesCount                   int
	MinLat, MaxLat, MinLon, MaxLon float64
	CommentsCount                  int
	Tags                           []Tag
	Discussion                     []Comment // nil/empty = no discussion
}

type NoteComment struct {
	Date    int64 // whole seconds (unix nanoseconds multiple of 1e9)
	UID     int64
	User    string
	UserURL string
	Action  string
	Text    string
	HTML    string
}

type Note struct {
	ID                                   int64
	Lat, Lon                             float64
	URL, CommentURL, CloseURL, ReopenURL string
	DateCreated, DateClosed              int64
	Status                               string
	Comments                             []NoteComment
}

type User struct {
	ID                                   int64
	Name, Description, ImgHref           string
	ChangesetsCount, TracesCount         int
	HomeLat, HomeLon                     float64
	HomeZoom                             int
	Languages                            []string
	BlocksCount, BlocksActive            int
	MsgRecvCount, MsgRecvUnread, MsgSent int
	CreatedAt                            int64
}

// Item is one top-level item of a document, in document order.
type Item struct {
	Node      *Node      `json:",omitempty"`
	Way       *Way       `json:",omitempty"`
	Relation  *Relation  `json:",omitempty"`
	Changeset *Changeset `json:",omitempty"`
	Note      *Note      `json:",omitempty"`
	User      *User      `json:",omitempty"`
	Bounds    *Bounds    `json:",omitempty"`
}

func (it Item) Kind() string {
	switch {
	case it.Node != nil:
		return "node"
	case it.Way != nil:
		return "way"
	case it.Relation != nil:
		return "relation"
	case it.Changeset != nil:
		return "changeset"
	case it.Note != nil:
		return "note"
	case it.User != nil:
		return "user"
	case it.Bounds != nil:
		return "bounds"
	}
	return ""
}

// Doc is an <osm> document (or the content of one osmChange block).
type Doc struct {
	Version, Generator, Copyright, Attribution, License string
	Items                                               []Item
}

// Block is one create/modify/delete block of an osmChange.
type Block struct {
	Action string
	Items  []Item // nodes, ways, relations and at most one bounds
}

type ChangeDoc struct {
	Version, Generator, Copyright, Attribution, License string
	Blocks                                              []Block
}

// Action of an augmented diff.
type Action struct {
	Type string // create modify delete
	Elem *Item  // create: exactly one element
	Old  []Item // modify/delete
	New  []Item
}

type DiffDoc struct {
	Actions []Action
}

// ---------------------------------------------------------------- to library values

func T(ns int64) time.Time {
	if ns == 0 {
		return time.Time{}
	}
	return time.Unix(0, ns).UTC()
}

func tp(ns int64) *time.Time {
	if ns == 0 {
		return nil
	}
	t := T(ns)
	return &t
}

func tags(ts []Tag) osm.Tags {
	if len(ts) == 0 {
		return nil
	}
	out := make(osm.Tags, len(ts))
	for i, t := range ts {
		out[i] = osm.Tag{Key: t.K, Value: t.V}
	}
	return out
}

func (b *Bounds) OSM() *osm.Bounds {
	if b == nil {
		return nil
	}
	return &osm.Bounds{MinLat: b.MinLat, MaxLat: b.MaxLat, MinLon: b.MinLon, MaxLon: b.MaxLon}
}

func updates(us []Update) osm.Updates {
	var out osm.Updates
	for _, u := range us {
		out = append(out, osm.Update{Index: u.Index, Version: u.Version, Timestamp: T(u.T), ChangesetID: osm.ChangesetID(u.CS), Lat: u.Lat, Lon: u.Lon, Reverse: u.Reverse})
	}
	return out
}

func wayNodes(ns []WayNode) osm.WayNodes {
	var out osm.WayNodes
	for _, n := range ns {
		out = append(out, osm.WayNode{ID: osm.NodeID(n.Ref), Version: n.Version, ChangesetID: osm.ChangesetID(n.CS), Lat: n.Lat, Lon: n.Lon})
	}
	return out
}

func (n *Node) OSM() *osm.Node {
	return &osm.Node{ID: osm.NodeID(n.ID), Lat: n.Lat, Lon: n.Lon, User: n.User, UserID: osm.UserID(n.UID), Visible: n.Visible, Version: n.Version,
		ChangesetID: osm.ChangesetID(n.CS), Timestamp: T(n.T), Tags: tags(n.Tags), Committed: tp(n.Committed)}
}

func (w *Way) OSM() *osm.Way {
	return &osm.Way{ID: osm.WayID(w.ID), User: w.User, UserID: osm.UserID(w.UID), Visible: w.Visible, Version: w.Version, ChangesetID: osm.ChangesetID(w.CS),
		Timestamp: T(w.T), Nodes: wayNodes(w.Nodes), Tags: tags(w.Tags), Committed: tp(w.Committed), Updates: updates(w.Updates), Bounds: w.Bounds.OSM()}
}

func (r *Relation) OSM() *osm.Relation {
	out := &osm.Relation{ID: osm.RelationID(r.ID), User: r.User, UserID: osm.UserID(r.UID), Visible: r.Visible, Version: r.Version, ChangesetID: osm.ChangesetID(r.CS),
		Timestamp: T(r.T), Tags: tags(r.Tags), Committed: tp(r.Committed), Updates: updates(r.Updates), Bounds: r.Bounds.OSM()}
	for _, m := range r.Members {
		out.Members = append(out.Members, osm.Member{Type: osm.Type(m.Type), Ref: m.Ref, Role: m.Role, Version: m.Version, ChangesetID: osm.ChangesetID(m.CS),
			Lat: m.Lat, Lon: m.Lon, Orientation: orb.Orientation(m.Orientation), Nodes: wayNodes(m.Nodes)})
	}
	return out
}

func (c *Changeset) OSM() *osm.Changeset {
	out := &osm.Changeset{ID: osm.ChangesetID(c.ID), User: c.User, UserID: osm.UserID(c.UID), CreatedAt: T(c.CreatedAt), ClosedAt: T(c.ClosedAt), Open: c.Open,
		ChangesCount: c.ChangesCount, MinLat: c.MinLat, MaxLat: c.MaxLat, MinLon: c.MinLon, MaxLon: c.MaxLon, CommentsCount: c.CommentsCount, Tags: tags(c.Tags)}
	if len(c.Discussion) > 0 {
		d := &osm.ChangesetDiscussion{}
		for _, cm := range c.Discussion {
			d.Comments = append(d.Comments, &osm.ChangesetComment{User: cm.User, UserID: osm.UserID(cm.UID), Timestamp: T(cm.T), Text: cm.Text})
		}
		out.Discussion = d
	}
	return out
}

func (n *Note) OSM() *osm.Note {
	out := &osm.Note{ID: osm.NoteID(n.ID), Lat: n.Lat, Lon: n.Lon, URL: n.URL, CommentURL: n.CommentURL, CloseURL: n.CloseURL, ReopenURL: n.ReopenURL,
		DateCreated: osm.Date{Time: T(n.DateCreated)}, DateClosed: osm.Date{Time: T(n.DateClosed)}, Status: osm.NoteStatus(n.Status)}
	for _, c := range n.Comments {
		out.Comments = append(out.Comments, &osm.NoteComment{Date: osm.Date{Time: T(c.Date)}, UserID: osm.UserID(c.UID), User: c.User, UserURL: c.UserURL,
			Action: osm.NoteCommentAction(c.Action), Text: c.Text, HTML: c.HTML})
	}
	return out
}

func (u *User) OSM() *osm.User {
	out := &osm.User{ID: osm.UserID(u.ID), Name: u.Name, Description: u.Description, Languages: append([]string(nil), u.Languages...), CreatedAt: T(u.CreatedAt)}
	out.Img.Href = u.ImgHref
	out.Changesets.Count = u.ChangesetsCount
	out.Traces.Count = u.TracesCount
	out.Home.Lat, out.Home.Lon, out.Home.Zoom = u.HomeLat, u.HomeLon, u.HomeZoom
	out.Blocks.Received.Count, out.Blocks.Received.Active = u.BlocksCount, u.BlocksActive
	out.Messages.Received.Count, out.Messages.Received.Unread, out.Messages.Sent.Count = u.MsgRecvCount, u.MsgRecvUnread, u.MsgSent
	return out
}

// ItemsOSM groups items by kind into a library OSM value.
func ItemsOSM(items []Item) *osm.OSM {
	o := &osm.OSM{}
	for _, it := range items {
		switch {
		case it.Node != nil:
			o.Nodes = append(o.Nodes, it.Node.OSM())
		case it.Way != nil:
			o.Ways = append(o.Ways, it.Way.OSM())
		case it.Relation != nil:
			o.Relations = append(o.Relations, it.Relation.OSM())
		case it.Changeset != nil:
			o.Changesets = append(o.Changesets, it.Changeset.OSM())
		case it.Note != nil:
			o.Notes = append(o.Notes, it.Note.OSM())
		case it.User != nil:
			o.Users = append(o.Users, it.User.OSM())
		case it.Bounds != nil:
			o.Bounds = it.Bounds.OSM()
		}
	}
	return o
}

func (d *Doc) OSM() *osm.OSM {
	o := ItemsOSM(d.Items)
	o.Version, o.Generator, o.Copyright, o.Attribution, o.License = d.Version, d.Generator, d.Copyright, d.Attribution, d.License
	return o
}

// ---------------------------------------------------------------- comparers (model vs library value)

func feq(a, b float64) bool { return a == b || (math.IsNaN(a) && math.IsNaN(b)) }

func teq(got time.Time, want int64) bool {
	if want == 0 {
		return got.IsZero()
	}
	return got.Equal(T(want))
}

func tagsDiff(got osm.Tags, want []Tag) string {
	if len(got) != len(want) {
		return fmt.Sprintf("tags: got %v want %v", got, want)
	}
	for i := range want {
		if got[i].Key != want[i].K || got[i].Value != want[i].V {
			return fmt.Sprintf("tag %d: got %q=%q want %q=%q", i, got[i].Key, got[i].Value, want[i].K, want[i].V)
		}
	}
	return ""
}

func boundsDiff(got *osm.Bounds, want *Bounds) string {
	if (got == nil) != (want == nil) {
		return fmt.Sprintf("bounds presence: got %v want %v", got, want)
	}
	if want != nil && (!feq(got.MinLat, want.MinLat) || !feq(got.MaxLat, want.MaxLat) || !feq(got.MinLon, want.MinLon) || !feq(got.MaxLon, want.MaxLon)) {
		return fmt.Sprintf("bounds: got %+v want %+v", *got, *want)
	}
	return ""
}

func updatesDiff(got osm.Updates, want []Update) string {
	if len(got) != len(want) {
		return fmt.Sprintf("updates: got %d want %d", len(got), len(want))
	}
	for i, w := range want {
		g := got[i]
		if g.Index != w.Index || g.Version != w.Version || !teq(g.Timestamp, w.T) || int64(g.ChangesetID) != w.CS || !feq(g.Lat, w.Lat) || !feq(g.Lon, w.Lon) || g.Reverse != w.Reverse {
			return fmt.Sprintf("update %d: got %+v want %+v", i, g, w)
		}
	}
	return ""
}

func wayNodesDiff(got osm.WayNodes, want []WayNode, annotations bool) string {
	if len(got) != len(want) {
		return fmt.Sprintf("way nodes: got %d want %d", len(got), len(want))
	}
	for i, w := range want {
		g := got[i]
		if int64(g.ID) != w.Ref {
			return fmt.Sprintf("way node %d ref: got %d want %d", i, g.ID, w.Ref)
		}
		if annotations && (g.Version != w.Version || int64(g.ChangesetID) != w.CS || !feq(g.Lat, w.Lat) || !feq(g.Lon, w.Lon)) {
			return fmt.Sprintf("way node %d annotations: got %+v want %+v", i, g, w)
		}
	}
	return ""
}

func cmTime(got *time.Time, want int64) bool {
	if want == 0 {
		return got == nil
	}
	return got != nil && got.Equal(T(want))
}

// Opt controls what the comparison demands.
type Opt struct {
	// JSON: osmjson has no place for way-node / member-node annotations and no tag order.
	JSON bool
}

func sortedTags(ts []Tag) []Tag {
	out := append([]Tag(nil), ts...)
	for i := 1; i < len(out); i++ {
		for j := i; j > 0 && out[j].K < out[j-1].K; j-- {
			out[j], out[j-1] = out[j-1], out[j]
		}
	}
	return out
}

func (o Opt) tags(got osm.Tags, want []Tag) string {
	if o.JSON {
		g := append(osm.Tags(nil), got...)
		g.SortByKeyValue()
		return tagsDiff(g, sortedTags(want))
	}
	return tagsDiff(got, want)
}

func (o Opt) NodeDiff(g *osm.Node, w *Node) string {
	switch {
	case g == nil:
		return "nil node"
	case int64(g.ID) != w.ID:
		return fmt.Sprintf("id: got %d want %d", g.ID, w.ID)
	case !feq(g.Lat, w.Lat) || !feq(g.Lon, w.Lon):
		return fmt.Sprintf("location: got %v,%v want %v,%v", g.Lat, g.Lon, w.Lat, w.Lon)
	case g.User != w.User || int64(g.UserID) != w.UID:
		return fmt.Sprintf("user: got %q/%d want %q/%d", g.User, g.UserID, w.User, w.UID)
	case g.Visible != w.Visible:
		return fmt.Sprintf("visible: got %v want %v", g.Visible, w.Visible)
	case g.Version != w.Version || int64(g.ChangesetID) != w.CS:
		return fmt.Sprintf("version/changeset: got %d/%d want %d/%d", g.Version, g.ChangesetID, w.Version, w.CS)
	case !teq(g.Timestamp, w.T):
		return fmt.Sprintf("timestamp: got %v want %v", g.Timestamp, T(w.T))
	case !cmTime(g.Committed, w.Committed):
		return fmt.Sprintf("committed: got %v want %v", g.Committed, T(w.Committed))
	}
	return o.tags(g.Tags, w.Tags)
}

func (o Opt) WayDiff(g *osm.Way, w *Way) string {
	switch {
	case g == nil:
		return "nil way"
	case int64(g.ID) != w.ID:
		return fmt.Sprintf("id: got %d want %d", g.ID, w.ID)
	case g.User != w.User || int64(g.UserID) != w.UID:
		return fmt.Sprintf("user: got %q/%d want %q/%d", g.User, g.UserID, w.User, w.UID)
	case g.Visible != w.Visible:
		return fmt.Sprintf("visible: got %v want %v", g.Visible, w.Visible)
	case g.Version != w.Version || int64(g.ChangesetID) != w.CS:
		return fmt.Sprintf("version/changeset: got %d/%d want %d/%d", g.Version, g.ChangesetID, w.Version, w.CS)
	case !teq(g.Timestamp, w.T):
		return fmt.Sprintf("timestamp: got %v want %v", g.Timestamp, T(w.T))
	case !cmTime(g.Committed, w.Committed):
		return fmt.Sprintf("committed: got %v want %v", g.Committed, T(w.Committed))
	}
	if d := wayNodesDiff(g.Nodes, w.Nodes, !o.JSON); d != "" {
		return d
	}
	if d := updatesDiff(g.Updates, w.Updates); d != "" {
		return d
	}
	if d := boundsDiff(g.Bounds, w.Bounds); d != "" {
		return d
	}
	return o.tags(g.Tags, w.Tags)
}

func (o Opt) RelationDiff(g *osm.Relation, w *Relation) string {
	switch {
	case g == nil:
		return "nil relation"
	case int64(g.ID) != w.ID:
		return fmt.Sprintf("id: got %d want %d", g.ID, w.ID)
	case g.User != w.User || int64(g.UserID) != w.UID:
		return fmt.Sprintf("user: got %q/%d want %q/%d", g.User, g.UserID, w.User, w.UID)
	case g.Visible != w.Visible:
		return fmt.Sprintf("visible: got %v want %v", g.Visible, w.Visible)
	case g.Version != w.Version || int64(g.ChangesetID) != w.CS:
		return fmt.Sprintf("version/changeset: got %d/%d want %d/%d", g.Version, g.ChangesetID, w.Version, w.CS)
	case !teq(g.Timestamp, w.T):
		return fmt.Sprintf("timestamp: got %v want %v", g.Timestamp, T(w.T))
	case !cmTime(g.Committed, w.Committed):
		return fmt.Sprintf("committed: got %v want %v", g.Committed, T(w.Committed))
	case len(g.Members) != len(w.Members):
		return fmt.Sprintf("members: got %d want %d", len(g.Members), len(w.Members))
	}
	for i, wm := range w.Members {
		gm := g.Members[i]
		if string(gm.Type) != wm.Type || gm.Ref != wm.Ref || gm.Role != wm.Role {
			return fmt.Sprintf("member %d: got %s/%d %q want %s/%d %q", i, gm.Type, gm.Ref, gm.Role, wm.Type, wm.Ref, wm.Role)
		}
		if gm.Version != wm.Version || int64(gm.ChangesetID) != wm.CS || !feq(gm.Lat, wm.Lat) || !feq(gm.Lon, wm.Lon) || int(gm.Orientation) != wm.Orientation {
			return fmt.Sprintf("member %d annotations: got %+v want %+v", i, gm, wm)
		}
		if d := wayNodesDiff(gm.Nodes, wm.Nodes, !o.JSON); d != "" {
			return fmt.Sprintf("member %d: %s", i, d)
		}
	}
	if d := updatesDiff(g.Updates, w.Updates); d != "" {
		return d
	}
	if d := boundsDiff(g.Bounds, w.Bounds); d != "" {
		return d
	}
	return o.tags(g.Tags, w.Tags)
}

func (o Opt) ChangesetDiff(g *osm.Changeset, w *Changeset) string {
	switch {
	case g == nil:
		return "nil changeset"
	case int64(g.ID) != w.ID:
		return fmt.Sprintf("id: got %d want %d", g.ID, w.ID)
	case g.User != w.User || int64(g.UserID) != w.UID:
		return fmt.Sprintf("user: got %q/%d want %q/%d", g.User, g.UserID, w.User, w.UID)
	case !teq(g.CreatedAt, w.CreatedAt) || !teq(g.ClosedAt, w.ClosedAt):
		return fmt.Sprintf("created/closed: got %v/%v want %v/%v", g.CreatedAt, g.ClosedAt, T(w.CreatedAt), T(w.ClosedAt))
	case g.Open != w.Open:
		return fmt.Sprintf("open: got %v want %v", g.Open, w.Open)
	case g.ChangesCount != w.ChangesCount || g.CommentsCount != w.CommentsCount:
		return fmt.Sprintf("counts: got %d/%d want %d/%d", g.ChangesCount, g.CommentsCount, w.ChangesCount, w.CommentsCount)
	case !feq(g.MinLat, w.MinLat) || !feq(g.MaxLat, w.MaxLat) || !feq(g.MinLon, w.MinLon) || !feq(g.MaxLon, w.MaxLon):
		return fmt.Sprintf("bbox: got %v %v %v %v want %v %v %v %v", g.MinLat, g.MaxLat, g.MinLon, g.MaxLon, w.MinLat, w.MaxLat, w.MinLon, w.MaxLon)
	}
	var gc []*osm.ChangesetComment
	if g.Discussion != nil {
		gc = g.Discussion.Comments
	}
	if len(gc) != len(w.Discussion) {
		return fmt.Sprintf("discussion: got %d comments want %d", len(gc), len(w.Discussion))
	}
	for i, wc := range w.Discussion {
		c := gc[i]
		if c == nil || c.User != wc.User || int64(c.UserID) != wc.UID || !teq(c.Timestamp, wc.T) || c.Text != wc.Text {
			return fmt.Sprintf("discussion comment %d: got %+v want %+v", i, c, wc)
		}
	}
	return o.tags(g.Tags, w.Tags)
}

func (o Opt) NoteDiff(g *osm.Note, w *Note) string {
	switch {
	case g == nil:
		return "nil note"
	case int64(g.ID) != w.ID:
		return fmt.Sprintf("id: got %d want %d", g.ID, w.ID)
	case !feq(g.Lat, w.Lat) || !feq(g.Lon, w.Lon):
		return fmt.Sprintf("location: got %v,%v want %v,%v", g.Lat, g.Lon, w.Lat, w.Lon)
	case g.URL != w.URL || g.CommentURL != w.CommentURL || g.CloseURL != w.CloseURL || g.ReopenURL != w.ReopenURL:
		return fmt.Sprintf("urls: got %q %q %q %q want %q %q %q %q", g.URL, g.CommentURL, g.CloseURL, g.ReopenURL, w.URL, w.CommentURL, w.CloseURL, w.ReopenURL)
	case !teq(g.DateCreated.Time, w.DateCreated) || !teq(g.DateClosed.Time, w.DateClosed):
		return fmt.Sprintf("dates: got %v/%v want %v/%v", g.DateCreated, g.DateClosed, T(w.DateCreated), T(w.DateClosed))
	case string(g.Status) != w.Status:
		return fmt.Sprintf("status: got %q want %q", g.Status, w.Status)
	case len(g.Comments) != len(w.Comments):
		return fmt.Sprintf("comments: got %d want %d", len(g.Comments), len(w.Comments))
	}
	for i, wc := range w.Comments {
		c := g.Comments[i]
		if c == nil || !teq(c.Date.Time, wc.Date) || int64(c.UserID) != wc.UID || c.User != wc.User || c.UserURL != wc.UserURL || string(c.Action) != wc.Action || c.Text != wc.Text || c.HTML != wc.HTML {
			return fmt.Sprintf("comment %d: got %+v want %+v", i, c, wc)
		}
	}
	return ""
}

func (o Opt) UserDiff(g *osm.User, w *User) string {
	switch {
	case g == nil:
		return "nil user"
	case int64(g.ID) != w.ID || g.Name != w.Name || g.Description != w.Description || g.Img.Href != w.ImgHref:
		return fmt.Sprintf("id/name/description/img: got %d %q %q %q want %d %q %q %q", g.ID, g.Name, g.Description, g.Img.Href, w.ID, w.Name, w.Description, w.ImgHref)
	case g.Changesets.Count != w.ChangesetsCount || g.Traces.Count != w.TracesCount:
		return fmt.Sprintf("counts: got %d/%d want %d/%d", g.Changesets.Count, g.Traces.Count, w.ChangesetsCount, w.TracesCount)
	case !feq(g.Home.Lat, w.HomeLat) || !feq(g.Home.Lon, w.HomeLon) || g.Home.Zoom != w.HomeZoom:
		return fmt.Sprintf("home: got %+v want %v %v %d", g.Home, w.HomeLat, w.HomeLon, w.HomeZoom)
	case g.Blocks.Received.Count != w.BlocksCount || g.Blocks.Received.Active != w.BlocksActive:
		return fmt.Sprintf("blocks: got %+v want %d/%d", g.Blocks, w.BlocksCount, w.BlocksActive)
	case g.Messages.Received.Count != w.MsgRecvCount || g.Messages.Received.Unread != w.MsgRecvUnread || g.Messages.Sent.Count != w.MsgSent:
		return fmt.Sprintf("messages: got %+v want %d/%d/%d", g.Messages, w.MsgRecvCount, w.MsgRecvUnread, w.MsgSent)
	case !teq(g.CreatedAt, w.CreatedAt):
		return fmt.Sprintf("created: got %v want %v", g.CreatedAt, T(w.CreatedAt))
	case len(g.Languages) != len(w.Languages):
		return fmt.Sprintf("languages: got %v want %v", g.Languages, w.Languages)
	}
	for i := range w.Languages {
		if g.Languages[i] != w.Languages[i] {
			return fmt.Sprintf("languages: got %v want %v", g.Languages, w.Languages)
		}
	}
	return ""
}

// ObjectDiff compares one scanned object with a model item.
func (o Opt) ObjectDiff(g osm.Object, w Item) string {
	switch {
	case w.Node != nil:
		x, ok := g.(*osm.Node)
		if !ok {
			return fmt.Sprintf("kind: got %T want node", g)
		}
		return o.NodeDiff(x, w.Node)
	case w.Way != nil:
		x, ok := g.(*osm.Way)
		if !ok {
			return fmt.Sprintf("kind: got %T want way", g)
		}
		return o.WayDiff(x, w.Way)
	case w.Relation != nil:
		x, ok := g.(*osm.Relation)
		if !ok {
			return fmt.Sprintf("kind: got %T want relation", g)
		}
		return o.RelationDiff(x, w.Relation)
	case w.Changeset != nil:
		x, ok := g.(*osm.Changeset)
		if !ok {
			return fmt.Sprintf("kind: got %T want changeset", g)
		}
		return o.ChangesetDiff(x, w.Changeset)
	case w.Note != nil:
		x, ok := g.(*osm.Note)
		if !ok {
			return fmt.Sprintf("kind: got %T want note", g)
		}
		return o.NoteDiff(x, w.Note)
	case w.User != nil:
		x, ok := g.(*osm.User)
		if !ok {
			return fmt.Sprintf("kind: got %T want user", g)
		}
		return o.UserDiff(x, w.User)
	case w.Bounds != nil:
		x, ok := g.(*osm.Bounds)
		if !ok {
			return fmt.Sprintf("kind: got %T want bounds", g)
		}
		return boundsDiff(x, w.Bounds)
	}
	return "empty model item"
}

// OSMDiff compares a decoded container with the model items (grouped by kind,
// each kind in document order; the last bounds wins).
func (o Opt) OSMDiff(g *osm.OSM, items []Item) string {
	if g == nil {
		if len(items) == 0 {
			return ""
		}
		return fmt.Sprintf("container is nil, want %d items", len(items))
	}
	var ns []*Node
	var ws []*Way
	var rs []*Relation
	var cs []*Changeset
	var nts []*Note
	var us []*User
	var b *Bounds
	for _, it := range items {
		switch {
		case it.Node != nil:
			ns = append(ns, it.Node)
		case it.Way != nil:
			ws = append(ws, it.Way)
		case it.Relation != nil:
			rs = append(rs, it.Relation)
		case it.Changeset != nil:
			cs = append(cs, it.Changeset)
		case it.Note != nil:
			nts = append(nts, it.Note)
		case it.User != nil:
			us = append(us, it.User)
		case it.Bounds != nil:
			b = it.Bounds
		}
	}
	if len(g.Nodes) != len(ns) || len(g.Ways) != len(ws) || len(g.Relations) != len(rs) || len(g.Changesets) != len(cs) || len(g.Notes) != len(nts) || len(g.Users) != len(us) {
		return fmt.Sprintf("element counts n/w/r/cs/note/user: got %d/%d/%d/%d/%d/%d want %d/%d/%d/%d/%d/%d", len(g.Nodes), len(g.Ways), len(g.Relations), len(g.Changesets), len(g.Notes), len(g.Users), len(ns), len(ws), len(rs), len(cs), len(nts), len(us))
	}
	for i := range ns {
		if d := o.NodeDiff(g.Nodes[i], ns[i]); d != "" {
			return fmt.Sprintf("node #%d: %s", i, d)
		}
	}
	for i := range ws {
		if d := o.WayDiff(g.Ways[i], ws[i]); d != "" {
			return fmt.Sprintf("way #%d: %s", i, d)
		}
	}
	for i := range rs {
		if d := o.RelationDiff(g.Relations[i], rs[i]); d != "" {
			return fmt.Sprintf("relation #%d: %s", i, d)
		}
	}
	for i := range cs {
		if d := o.ChangesetDiff(g.Changesets[i], cs[i]); d != "" {
			return fmt.Sprintf("changeset #%d: %s", i, d)
		}
	}
	for i := range nts {
		if d := o.NoteDiff(g.Notes[i], nts[i]); d != "" {
			return fmt.Sprintf("note #%d: %s", i, d)
		}
	}
	for i := range us {
		if d := o.UserDiff(g.Users[i], us[i]); d != "" {
			return fmt.Sprintf("user #%d: %s", i, d)
		}
	}
	if d := boundsDiff(g.Bounds, b); d != "" {
		return d
	}
	return ""
}
