package main

// registry: one entry per claimed property. Case counts live in the test
// packages (Spec.N is the quick-tier count); the driver only scales them.
var pbfAssume = []string{
	"valid file = what the harness's independent encoder emits: packed encodings only, one element kind per group, zlib or raw blobs, string-table entry 0 is \"\", dense tag keys non-empty, timestamps <= 2100-01-01, versions/uids in [0,2^31)",
	"the Go toolchain, protowire (used only as a varint writer) and compress/zlib are trusted",
}

var registry = []prop{
	{
		ID: "C01", Pkg: "props/c01", Level: "exploration",
		Quick:  tierCfg{Shards: 1, Scale: 1, TimeoutS: 300},
		Thor:   tierCfg{Shards: 16, Scale: 4, TimeoutS: 1500},
		Assume: pbfAssume,
	},
	{
		ID: "C02", Pkg: "props/c02", Level: "exploration", Race: true, Hang: true,
		Quick:  tierCfg{Shards: 1, Scale: 1, TimeoutS: 400},
		Thor:   tierCfg{Shards: 8, Scale: 6, TimeoutS: 2400},
		Assume: append([]string{"schedules are sampled by perturbing reader, decoder callbacks, consumer and GOMAXPROCS; the OS scheduler is not controlled", "the Go race detector reports every unsynchronised conflicting access it observes on the executed schedules"}, pbfAssume...),
	},
	{
		ID: "C06", Pkg: "props/c06", Level: "fault_enumeration", Hang: true,
		Quick:  tierCfg{Shards: 1, Scale: 1, TimeoutS: 400},
		Thor:   tierCfg{Shards: 1, Scale: 12, TimeoutS: 3000},
		Fuzz:   []fuzzTarget{{Name: "FuzzScan", Seconds: 240}},
		Assume: append([]string{"damage classes are the ones the statement lists; shorter-than-needed columns and indexes beyond the string table are 'out-of-range references', longer-than-needed id columns are not judged", "a zlib bit flip counts as damage only if Go's compress/zlib rejects the stream or inflates it differently"}, pbfAssume...),
	},
	{
		ID: "C07", Pkg: "props/c07", Level: "exploration", Race: true, Hang: true,
		Quick:  tierCfg{Shards: 1, Scale: 1, TimeoutS: 500},
		Thor:   tierCfg{Shards: 8, Scale: 5, TimeoutS: 3000},
		Assume: append([]string{"the read-ahead allowance (3*procs+30 blocks) is the harness's generous reading of 'without consuming the rest of the input'", "after both a cancellation and Close, either the context error or the scanner-closed error is accepted; after a complete scan nil is accepted even if Close/cancel follows", "schedules are sampled, not enumerated; the race detector only sees executed interleavings"}, pbfAssume...),
	},
	{
		ID: "C08", Pkg: "props/c08", Level: "exploration",
		Quick:  tierCfg{Shards: 1, Scale: 1, TimeoutS: 300},
		Thor:   tierCfg{Shards: 16, Scale: 4, TimeoutS: 1500},
		Assume: append([]string{"predicates are pure functions of the element shown (the scanner calls them from several goroutines)"}, pbfAssume...),
	},
	{
		ID: "C09", Pkg: "props/c09", Level: "exploration", Hang: true,
		Quick:  tierCfg{Shards: 1, Scale: 1, TimeoutS: 300},
		Thor:   tierCfg{Shards: 16, Scale: 4, TimeoutS: 1500},
		Assume: pbfAssume,
	},
	{
		ID: "C10", Pkg: "props/c10", Level: "exploration",
		Quick: tierCfg{Shards: 1, Scale: 1, TimeoutS: 240},
		Thor:  tierCfg{Shards: 16, Scale: 20, TimeoutS: 1200},
		Fuzz:  []fuzzTarget{{Name: "FuzzParse", Seconds: 120}},
		Assume: []string{
			"references in [0,2^40) and versions in [0,2^16) as the statement bounds them; out-of-range numbers, explicit signs and bounds/<n> are counted but not judged",
			"the boundary sweep is exhaustive over the boundary sets only, random draws cover the rest of the 2^56 space by sampling",
		},
	},
	{
		ID: "C14", Pkg: "props/c14", Level: "exploration", Hang: true,
		Quick:  tierCfg{Shards: 1, Scale: 1, TimeoutS: 300},
		Thor:   tierCfg{Shards: 16, Scale: 10, TimeoutS: 1500},
		Assume: []string{"relation ids >= 1 (id 0 is the iterator's end marker)", "the order clause is judged only when the whole member-reference graph over ids with history is acyclic, as the statement says", "Close/cancel interleavings are sampled by the stop position, not enumerated"},
	},
	{
		ID: "C13", Pkg: "props/c13", Level: "exploration",
		Quick:  tierCfg{Shards: 1, Scale: 1, TimeoutS: 300},
		Thor:   tierCfg{Shards: 16, Scale: 10, TimeoutS: 1500},
		Assume: []string{"duplicate history entries of the predecessor version are interchangeable (any of them is accepted as the old state)", "the datasource is the library's own map-backed osm.HistoryDatasource"},
	},
	{
		ID: "C15", Pkg: "props/c15", Level: "exploration",
		Quick:  tierCfg{Shards: 1, Scale: 1, TimeoutS: 300},
		Thor:   tierCfg{Shards: 16, Scale: 10, TimeoutS: 1500},
		Assume: []string{"update indices are >= 0", "the geometry clause is judged only for fully annotated ways (every node and update has version >= 1 and a location other than (0,0)) with all indices in range", "composition is judged only when each child's updates appear in time order in the stored list", "the copy of the geometry clause is a struct copy of the way with a cloned node list; its update list shares memory with the original, and applying the updates on the copy must leave the original unchanged"},
	},
	{
		ID: "C18", Pkg: "props/c18", Level: "exploration",
		Quick:  tierCfg{Shards: 1, Scale: 1, TimeoutS: 300},
		Thor:   tierCfg{Shards: 8, Scale: 20, TimeoutS: 1500},
		Assume: []string{"the harness embeds its own transcription of the published Overpass-turbo polygon-features table (26 keys; the published area key is the area-tag rule)", "tag sets have unique keys"},
	},
	{
		ID: "C16", Pkg: "props/c16", Level: "exploration",
		Quick:  tierCfg{Shards: 1, Scale: 1, TimeoutS: 300},
		Thor:   tierCfg{Shards: 16, Scale: 6, TimeoutS: 1800},
		Assume: []string{"ground-truth rings are simple, outers pairwise disjoint, holes strictly inside their outer and pairwise disjoint, no vertex at (0,0)", "rings are compared as canonical cyclic vertex sequences with exact float equality (coordinates are copied, never computed)"},
	},
	{
		ID: "C17", Pkg: "props/c17", Level: "exploration",
		Quick:  tierCfg{Shards: 1, Scale: 1, TimeoutS: 300},
		Thor:   tierCfg{Shards: 16, Scale: 8, TimeoutS: 1800},
		Assume: []string{"ways reference located nodes or missing nodes only (a node object at exactly lon=0,lat=0 counts as not located)", "area ways are built from simple rings; multipolygon geometry itself is judged by C16, here only its presence/type", "member ways of route/multipolygon/boundary relations may or may not get a feature of their own (at most one)"},
	},
	{
		ID: "C19", Pkg: "props/c19", Level: "exploration", Hang: true,
		Quick:  tierCfg{Shards: 1, Scale: 1, TimeoutS: 400},
		Thor:   tierCfg{Shards: 16, Scale: 6, TimeoutS: 2400},
		Assume: []string{"the current state file always exists and timestamps strictly increase with the sequence number", "request budget 8*(ceil(log2(cur))+2) + 4*(missing files in [1,cur]) + 16 is the harness's generous reading of logarithmic plus stepped-over gaps", "queries before every state are only combined with missing prefixes of at most 2000 files (any exact search has to inspect the whole prefix then)"},
	},
	{
		ID: "C20", Pkg: "props/c20", Level: "exploration",
		Quick:  tierCfg{Shards: 1, Scale: 1, TimeoutS: 300},
		Thor:   tierCfg{Shards: 16, Scale: 10, TimeoutS: 1500},
		Assume: []string{"the endpoint table is the harness's transcription of the OSM API v0.6 documentation plus the library-documented at= extension", "3xx statuses are excluded (net/http handles redirects before the library sees them)", "responses are served by an in-process http.RoundTripper; nothing is sent over a network"},
	},
	{
		ID: "C11", Pkg: "props/c11", Level: "exploration",
		Quick:  tierCfg{Shards: 1, Scale: 1, TimeoutS: 400},
		Thor:   tierCfg{Shards: 16, Scale: 10, TimeoutS: 2400},
		Assume: []string{"child commit times are non-decreasing in the version number; times on a one-second grid, or in the commit regime on a 250 ms / 100 ms grid (several distinct commit instants inside one wall-clock second)", "a child version committed at the same instant as the next parent version may or may not be listed as an update of the previous one (the statement does not say)", "pre-commit regime: parent versions more than 2*threshold apart and at most one child version inside each +-threshold window, so the result does not depend on nearest-in-window tie-breaking; no deletions in that regime", "mixed-era histories are not generated"},
	},
	{
		ID: "C12", Pkg: "props/c12", Level: "exploration",
		Quick:  tierCfg{Shards: 1, Scale: 1, TimeoutS: 300},
		Thor:   tierCfg{Shards: 16, Scale: 8, TimeoutS: 1800},
		Assume: []string{"hash-map iteration orders are sampled by repeating the computation 8 times per case on freshly built equal input", "which of several inconsistencies is reported may differ between runs; only success/failure must agree"},
	},
	{
		ID: "C03", Pkg: "props/c03", Level: "exploration",
		Quick:  tierCfg{Shards: 1, Scale: 1, TimeoutS: 300},
		Thor:   tierCfg{Shards: 16, Scale: 8, TimeoutS: 1800},
		Assume: []string{"documents are UTF-8, without namespaces or DTDs, written by the harness's own XML writer (internal/osmdoc) which knows element/attribute names from the OSM XML format description", "an absent attribute equals the zero value of its field; unknown top-level elements never contain OSM element names (the streaming scanner documents dispatch by element name at any depth)", "note dates use the notes API layout with whole seconds"},
	},
	{
		ID: "C04", Pkg: "props/c04", Level: "exploration",
		Quick:  tierCfg{Shards: 1, Scale: 1, TimeoutS: 300},
		Thor:   tierCfg{Shards: 16, Scale: 8, TimeoutS: 1800},
		Assume: []string{"strings are XML 1.0 representable, floats finite, times UTC; note dates have whole seconds (the notes API format has no fraction)", "nil and empty slices/blocks are the same value; an empty changeset discussion equals none (documented omission)", "create actions of a Diff hold exactly one element"},
	},
	{
		ID: "C05", Pkg: "props/c05", Level: "exploration",
		Quick:  tierCfg{Shards: 1, Scale: 1, TimeoutS: 300},
		Thor:   tierCfg{Shards: 16, Scale: 8, TimeoutS: 1800},
		Assume: []string{"tag keys are unique per element (JSON objects cannot carry duplicates)", "the user-installed codecs are harness-written implementations of the two codec interfaces over encoding/json (the cached json-iterator/reflect2 pair crashes on this Go version)", "the package-level codec variables are process-global; cases run sequentially and restore them"},
	},
}
