// vcheck is the driver of the verification machinery: it builds one property's
// test package against /repo's current working tree, runs it (sharded for the
// thorough tier), merges the per-process results into evidence/<id>.json, and
// maps the outcome to the exit code / VIOLATION / KNOWN-FINDING contract.
package main

import (
	"bytes"
	"encoding/json"
	"flag"
	"fmt"
	"os"
	"os/exec"
	"path/filepath"
	"regexp"
	"sort"
	"strconv"
	"strings"
	"sync"
	"syscall"
	"time"
)

const root = "/verif"

type tierCfg struct {
	Shards   int     // processes
	Scale    float64 // multiplier on every sub-check's base count
	TimeoutS int     // per process
}

type prop struct {
	ID        string
	Pkg       string
	Race      bool
	Quick     tierCfg
	Thor      tierCfg
	Level     string
	Hang      bool // informational: the property has per-case hang watchdogs inside its check
	Assume    []string
	Fuzz      []fuzzTarget // native fuzz targets, thorough tier only
	BuildTags string
}

type fuzzTarget struct {
	Name    string
	Seconds int
}

type sub struct {
	Requested   int               `json:"requested"`
	Evaluations int               `json:"evaluations"`
	Nontrivial  int               `json:"nontrivial"`
	Hashes      []uint64          `json:"hashes"`
	Classes     map[string]int    `json:"classes"`
	Samples     []json.RawMessage `json:"samples"`
	Excluded    int               `json:"excluded_known"`
	Exhaustive  bool              `json:"exhaustive"`
	Rule        string            `json:"rule"`
}

type violation struct {
	Sub       string `json:"sub"`
	Signature string `json:"signature"`
	Message   string `json:"message"`
	Replay    string `json:"replay"`
}

type knownHit struct {
	Signature string `json:"signature"`
	What      string `json:"what"`
}

type result struct {
	Property   string          `json:"property"`
	Subs       map[string]*sub `json:"subs"`
	Violations []violation     `json:"violations"`
	Known      []knownHit      `json:"known"`
	Notes      []string        `json:"notes"`
	Degenerate []string        `json:"degenerate"`
}

type finding struct {
	Property  string `json:"property"`
	Status    string `json:"status"` // known | fixed
	Signature string `json:"signature"`
	Commit    string `json:"commit,omitempty"`
	What      string `json:"what"`
	Line      string `json:"line"`
}

type findingsFile struct {
	Findings []finding `json:"findings"`
}

func goEnv() []string {
	env := os.Environ()
	env = append(env, "GOFLAGS=-mod=mod", "GOPROXY=off", "GOSUMDB=off", "GOTOOLCHAIN=local", "GONOSUMDB=*", "GONOSUMCHECK=1")
	return env
}

func infra(format string, args ...any) {
	fmt.Printf("INCONCLUSIVE: "+format+"\n", args...)
	os.Exit(2)
}

func main() {
	pid := flag.String("p", "", "property id (C01..C20)")
	tier := flag.String("tier", "quick", "quick | thorough | replay")
	keep := flag.Bool("keep", false, "keep the work directory")
	flag.Parse()
	if t := os.Getenv("VERIF_TIER"); t == "quick" || t == "thorough" {
		if *tier != "replay" {
			*tier = t
		}
	}
	var p *prop
	for i := range registry {
		if registry[i].ID == *pid {
			p = &registry[i]
		}
	}
	if p == nil {
		infra("unknown property %q", *pid)
	}
	seed := uint64(1)
	if s, err := strconv.ParseUint(os.Getenv("VERIF_SEED"), 10, 64); err == nil && s != 0 {
		seed = s
	}
	start := time.Now()

	work := filepath.Join(root, ".work", p.ID+"-"+*tier+"-"+strconv.Itoa(os.Getpid()))
	os.RemoveAll(work)
	if err := os.MkdirAll(work, 0o755); err != nil {
		infra("mkdir: %v", err)
	}
	if !*keep {
		defer os.RemoveAll(work)
	}
	exit := func(code int) {
		if !*keep {
			os.RemoveAll(work)
		}
		os.Exit(code)
	}

	// ---- build against /repo's current working tree
	bin := filepath.Join(work, "test.bin")
	args := []string{"test", "-c", "-vet=off", "-o", bin}
	if p.Race {
		args = append(args, "-race")
	}
	if p.BuildTags != "" {
		args = append(args, "-tags", p.BuildTags)
	}
	args = append(args, "./"+p.Pkg)
	cmd := exec.Command("go", args...)
	cmd.Dir = root
	cmd.Env = goEnv()
	if out, err := cmd.CombinedOutput(); err != nil {
		fmt.Printf("%s\n", out)
		fmt.Printf("INCONCLUSIVE: building %s against /repo failed (a /repo tree that does not compile is not a property violation)\n", p.Pkg)
		exit(2)
	}

	cfg := p.Quick
	tierName := *tier
	if *tier == "thorough" {
		cfg = p.Thor
	}
	if *tier == "replay" {
		cfg = tierCfg{Shards: 1, Scale: 1, TimeoutS: 300}
		tierName = "quick"
	}
	if cfg.Shards < 1 {
		cfg.Shards = 1
	}

	// ---- run shards
	outs := make([]shardOut, cfg.Shards)
	var wg sync.WaitGroup
	sem := make(chan struct{}, 16)
	for k := 0; k < cfg.Shards; k++ {
		wg.Add(1)
		go func(k int) {
			defer wg.Done()
			sem <- struct{}{}
			defer func() { <-sem }()
			dir := filepath.Join(work, fmt.Sprintf("s%d", k))
			os.MkdirAll(dir, 0o755)
			outPath := filepath.Join(dir, "result.json")
			logPath := filepath.Join(dir, "log.txt")
			inflight := filepath.Join(dir, "inflight.json")
			lf, _ := os.Create(logPath)
			c := exec.Command(bin, "-test.v", fmt.Sprintf("-test.timeout=%ds", cfg.TimeoutS+60))
			c.Dir = dir
			c.Stdout, c.Stderr = lf, lf
			c.Env = append(os.Environ(),
				"VERIF_OUT="+outPath,
				"VERIF_SEED="+strconv.FormatUint(seed*1000+uint64(k), 10),
				"VERIF_SCALE="+strconv.FormatFloat(cfg.Scale, 'f', -1, 64),
				"VERIF_TIER="+tierName,
				"VERIF_SHARD="+strconv.Itoa(k),
				"VERIF_INFLIGHT="+inflight,
				"VERIF_BIN="+bin,
				"GORACE=halt_on_error=1 exitcode=66",
				"GOTRACEBACK=all",
			)
			if *tier == "replay" {
				c.Env = append(c.Env, "VERIF_REPLAY_ONLY=1")
			}
			if *tier == "thorough" {
				c.Env = append(c.Env, "VERIF_SHRINK=60s")
			}
			c.SysProcAttr = &syscall.SysProcAttr{Setpgid: true}
			if err := c.Start(); err != nil {
				outs[k] = shardOut{code: -1, log: logPath}
				return
			}
			done := make(chan error, 1)
			go func() { done <- c.Wait() }()
			timedOut := false
			select {
			case <-done:
			case <-time.After(time.Duration(cfg.TimeoutS) * time.Second):
				timedOut = true
				c.Process.Signal(syscall.SIGQUIT)
				select {
				case <-done:
				case <-time.After(10 * time.Second):
					syscall.Kill(-c.Process.Pid, syscall.SIGKILL)
					<-done
				}
			}
			syscall.Kill(-c.Process.Pid, syscall.SIGKILL) // stray children
			lf.Close()
			so := shardOut{code: c.ProcessState.ExitCode(), timedOut: timedOut, log: logPath, inflight: inflight}
			if b, err := os.ReadFile(outPath); err == nil {
				var r result
				if json.Unmarshal(b, &r) == nil {
					so.res = &r
				}
			}
			outs[k] = so
		}(k)
	}
	wg.Wait()

	// ---- merge
	merged := map[string]*sub{}
	hashes := map[string]map[uint64]struct{}{}
	var viols []violation
	var known []knownHit
	var notes, degenerate []string
	inconclusive := []string{}
	for k, so := range outs {
		if so.res != nil {
			for name, s := range so.res.Subs {
				m := merged[name]
				if m == nil {
					m = &sub{Classes: map[string]int{}, Exhaustive: s.Exhaustive, Rule: s.Rule}
					merged[name] = m
					hashes[name] = map[uint64]struct{}{}
				}
				m.Requested += s.Requested
				m.Evaluations += s.Evaluations
				m.Nontrivial += s.Nontrivial
				m.Excluded += s.Excluded
				m.Exhaustive = m.Exhaustive && s.Exhaustive
				for c, n := range s.Classes {
					m.Classes[c] += n
				}
				for _, h := range s.Hashes {
					hashes[name][h] = struct{}{}
				}
				if len(m.Samples) < 4 {
					for _, smp := range s.Samples {
						if len(m.Samples) < 4 {
							m.Samples = append(m.Samples, smp)
						}
					}
				}
			}
			viols = append(viols, so.res.Violations...)
			known = append(known, so.res.Known...)
			notes = append(notes, so.res.Notes...)
			degenerate = append(degenerate, so.res.Degenerate...)
		}
		logText := ""
		if b, err := os.ReadFile(so.log); err == nil {
			logText = string(b)
		}
		hasViol := so.res != nil && len(so.res.Violations) > 0
		switch {
		case so.code == 0 && !so.timedOut:
		case so.code == 66 || strings.Contains(logText, "WARNING: DATA RACE"):
			pth := saveCrash(p.ID, "race", so, extract(logText, "WARNING: DATA RACE", 12000))
			viols = append(viols, violation{Sub: "process", Signature: p.ID + "/data-race", Message: "race detector report (shard " + strconv.Itoa(k) + "): " + firstLine(extract(logText, "WARNING: DATA RACE", 300)), Replay: pth})
		case so.timedOut:
			// A whole-process deadline is never a violation: every hang-sensitive
			// property has its own per-case watchdog that reports a blocked call with
			// the case that caused it; a slow machine must not be read as a hang.
			if !hasViol {
				inconclusive = append(inconclusive, fmt.Sprintf("shard %d timed out after %ds (log kept at %s)", k, cfg.TimeoutS, keepLog(p.ID, so.log)))
			}
		case crashedInOSM(logText):
			pth := saveCrash(p.ID, "crash", so, extractCrash(logText))
			viols = append(viols, violation{Sub: "process", Signature: p.ID + "/process-crash", Message: "test process died with a Go panic/fatal error raised in paulmach/osm code: " + firstLine(extractCrash(logText)), Replay: pth})
		case hasViol:
		default:
			inconclusive = append(inconclusive, fmt.Sprintf("shard %d exited with code %d without reporting a violation (log kept at %s)", k, so.code, keepLog(p.ID, so.log)))
		}
	}

	// ---- native fuzz (thorough only): robustness supplement
	fuzzNote := ""
	if *tier == "thorough" && len(p.Fuzz) > 0 {
		fv, fn := runFuzz(p, work)
		viols = append(viols, fv...)
		fuzzNote = fn
	}

	// ---- known findings
	var ff findingsFile
	if b, err := os.ReadFile(filepath.Join(root, "known_findings.json")); err == nil {
		if err := json.Unmarshal(b, &ff); err != nil {
			infra("known_findings.json does not parse: %v", err)
		}
	}
	isKnown := func(sig string) *finding {
		for i := range ff.Findings {
			f := &ff.Findings[i]
			if f.Property == p.ID && f.Status == "known" && f.Signature == sig {
				return f
			}
		}
		return nil
	}
	printedKnown := map[string]bool{}
	var real []violation
	for _, v := range viols {
		if f := isKnown(v.Signature); f != nil {
			if !printedKnown[f.Signature] {
				printedKnown[f.Signature] = true
				fmt.Printf("KNOWN-FINDING: property=%s %s [%s]\n", p.ID, f.What, f.Signature)
			}
			continue
		}
		real = append(real, v)
	}
	for _, h := range known {
		if f := isKnown(h.Signature); f != nil {
			if !printedKnown[f.Signature] {
				printedKnown[f.Signature] = true
				fmt.Printf("KNOWN-FINDING: property=%s %s [%s]\n", p.ID, f.What, f.Signature)
			}
			continue
		}
		real = append(real, violation{Sub: "witness", Signature: h.Signature, Message: h.What, Replay: filepath.Join(root, "known_findings.json")})
	}

	// ---- evidence
	ev := map[string]any{}
	totalEval, totalNT, excluded := 0, 0, 0
	exhaustive := len(merged) > 0
	var rules []string
	var samples []any
	perSub := map[string]any{}
	names := make([]string, 0, len(merged))
	for n := range merged {
		names = append(names, n)
	}
	sort.Strings(names)
	for _, n := range names {
		s := merged[n]
		totalEval += s.Evaluations
		totalNT += len(hashes[n])
		excluded += s.Excluded
		exhaustive = exhaustive && s.Exhaustive
		rules = append(rules, n+": "+s.Rule)
		for i, smp := range s.Samples {
			if i < 2 {
				samples = append(samples, map[string]any{"sub": n, "case": smp})
			}
		}
		perSub[n] = map[string]any{
			"requested": s.Requested, "evaluations": s.Evaluations, "nontrivial_evaluations": s.Nontrivial,
			"distinct_nontrivial": len(hashes[n]), "classes": s.Classes, "excluded_known": s.Excluded, "exhaustive": s.Exhaustive,
		}
	}
	cov := map[string]any{
		"evaluations":         totalEval,
		"distinct_nontrivial": totalNT,
		"rule":                strings.Join(rules, " || "),
		"samples":             samples,
		"per_sub":             perSub,
		"excluded_known":      excluded,
		"shards":              cfg.Shards,
	}
	if exhaustive {
		cov["exhaustive"] = true
	}
	if fuzzNote != "" {
		cov["native_fuzz"] = fuzzNote
	}
	if len(notes) > 0 {
		cov["notes"] = notes
	}
	ev["property_id"] = p.ID
	ev["tier"] = tierName
	ev["seed"] = seed
	ev["level"] = p.Level
	ev["coverage"] = cov
	ev["assumptions"] = p.Assume
	ev["wall_s"] = time.Since(start).Seconds()
	ev["violations"] = len(real)
	if *tier != "replay" {
		os.MkdirAll(filepath.Join(root, "evidence"), 0o755)
		var eb bytes.Buffer
		enc := json.NewEncoder(&eb)
		enc.SetEscapeHTML(false)
		enc.SetIndent("", " ")
		enc.Encode(ev)
		os.WriteFile(filepath.Join(root, "evidence", p.ID+".json"), eb.Bytes(), 0o644)
	}

	// ---- verdict
	seen := map[string]bool{}
	for _, v := range real {
		key := v.Signature + "|" + v.Replay
		if seen[key] {
			continue
		}
		seen[key] = true
		fmt.Printf("VIOLATION property=%s replay=%s\n", p.ID, v.Replay)
		fmt.Printf("  signature=%s sub=%s\n  %s\n", v.Signature, v.Sub, indent(trunc(v.Message, 1500)))
	}
	if len(real) > 0 {
		exit(1)
	}
	for _, d := range degenerate {
		inconclusive = append(inconclusive, "generator health: "+d)
	}
	if *tier != "replay" {
		if totalEval < 1 || totalNT < 2 {
			inconclusive = append(inconclusive, fmt.Sprintf("too little explored (evaluations=%d distinct_nontrivial=%d)", totalEval, totalNT))
		}
		for _, n := range names {
			s := merged[n]
			if s.Evaluations < s.Requested {
				inconclusive = append(inconclusive, fmt.Sprintf("sub-check %s ran %d of %d requested cases", n, s.Evaluations, s.Requested))
			}
		}
	}
	if len(inconclusive) > 0 {
		for _, m := range inconclusive {
			fmt.Printf("INCONCLUSIVE: %s\n", m)
		}
		exit(2)
	}
	fmt.Printf("OK property=%s tier=%s seed=%d evaluations=%d distinct_nontrivial=%d wall=%.1fs\n", p.ID, *tier, seed, totalEval, totalNT, time.Since(start).Seconds())
	exit(0)
}

func indent(s string) string { return strings.ReplaceAll(s, "\n", "\n  ") }

func trunc(s string, n int) string {
	if len(s) > n {
		return s[:n] + "…"
	}
	return s
}

func firstLine(s string) string {
	if i := strings.IndexByte(s, '\n'); i >= 0 {
		return s[:i]
	}
	return s
}

func extract(log, marker string, n int) string {
	i := strings.Index(log, marker)
	if i < 0 {
		i = 0
	}
	s := log[i:]
	return trunc(s, n)
}

var crashRe = regexp.MustCompile(`(?m)^(panic: |fatal error: |unexpected fault address|SIGSEGV)`)

func extractCrash(log string) string {
	loc := crashRe.FindStringIndex(log)
	if loc == nil {
		return ""
	}
	return trunc(log[loc[0]:], 12000)
}

// crashedInOSM: the process died from a Go panic / fatal error and the first
// goroutine stack after the panic line contains a paulmach/osm frame above any
// frame of the harness (i.e. the fault was raised in library code).
func crashedInOSM(log string) bool {
	c := extractCrash(log)
	if c == "" {
		return false
	}
	// first goroutine block
	blocks := strings.Split(c, "\n\n")
	for _, b := range blocks {
		if !strings.Contains(b, "goroutine ") {
			continue
		}
		for _, line := range strings.Split(b, "\n") {
			l := strings.TrimSpace(line)
			if strings.HasPrefix(l, "github.com/paulmach/osm") {
				return true
			}
			if strings.HasPrefix(l, "verif/") {
				return false
			}
		}
		return false
	}
	return false
}

func keepLog(id, path string) string {
	dir := filepath.Join(root, ".work", "logs")
	os.MkdirAll(dir, 0o755)
	dst := filepath.Join(dir, fmt.Sprintf("%s-%d.log", id, time.Now().UnixNano()))
	if b, err := os.ReadFile(path); err == nil {
		if len(b) > 400000 {
			b = b[len(b)-400000:]
		}
		os.WriteFile(dst, b, 0o644)
	}
	return dst
}

type shardOut struct {
	res      *result
	code     int
	timedOut bool
	log      string
	inflight string
}

func saveCrash(id, kind string, so shardOut, report string) string {
	dir := filepath.Join(root, "replays", id)
	os.MkdirAll(dir, 0o755)
	var inflight json.RawMessage
	if b, err := os.ReadFile(so.inflight); err == nil && json.Valid(b) {
		inflight = b
	}
	doc := map[string]any{
		"property": id, "kind": kind, "exit_code": so.code, "report": report,
		"inflight_case": inflight,
		"how_to_replay": "the in-flight case (if any) is a replay file body: save it as /verif/replays/" + id + "/<sub>-x.json and run ./check " + id + " replay",
	}
	b, _ := json.MarshalIndent(doc, "", " ")
	path := filepath.Join(dir, fmt.Sprintf("%s-%d.json", kind, time.Now().UnixNano()))
	os.WriteFile(path, b, 0o644)
	// make the in-flight case itself replayable
	if inflight != nil {
		var rf map[string]any
		if json.Unmarshal(inflight, &rf) == nil {
			if subName, _ := rf["sub"].(string); subName != "" {
				rf["signature"] = id + "/" + kind
				rf["message"] = firstLine(report)
				nb, _ := json.MarshalIndent(rf, "", " ")
				os.WriteFile(filepath.Join(dir, fmt.Sprintf("%s-%s-%d.json", sanitize(subName), kind, time.Now().UnixNano())), nb, 0o644)
			}
		}
	}
	return path
}

func sanitize(s string) string {
	return strings.Map(func(r rune) rune {
		if r >= 'a' && r <= 'z' || r >= 'A' && r <= 'Z' || r >= '0' && r <= '9' || r == '-' || r == '_' {
			return r
		}
		return '_'
	}, s)
}

// runFuzz runs Go native fuzz targets for a bounded time each. A crasher is a
// violation (its testdata/fuzz file is the replay); a budget hit is nothing.
func runFuzz(p *prop, work string) ([]violation, string) {
	var out []violation
	var notes []string
	for _, ft := range p.Fuzz {
		pkgDir := filepath.Join(root, p.Pkg)
		cmd := exec.Command("go", "test", "-vet=off", "-run", "^$", "-fuzz", "^"+ft.Name+"$", "-fuzztime", fmt.Sprintf("%ds", ft.Seconds), ".")
		cmd.Dir = pkgDir
		cmd.Env = append(goEnv(), "VERIF_FUZZ=1")
		var buf bytes.Buffer
		cmd.Stdout, cmd.Stderr = &buf, &buf
		err := cmd.Run()
		text := buf.String()
		execs := ""
		if m := regexp.MustCompile(`execs: (\d+)`).FindAllStringSubmatch(text, -1); len(m) > 0 {
			execs = m[len(m)-1][1]
		}
		notes = append(notes, fmt.Sprintf("%s: %ds, execs=%s", ft.Name, ft.Seconds, execs))
		if err != nil {
			if m := regexp.MustCompile(`Failing input written to (\S+)`).FindStringSubmatch(text); m != nil {
				src := filepath.Join(pkgDir, m[1])
				dst := filepath.Join(root, "replays", p.ID, "fuzz-"+ft.Name+"-"+filepath.Base(m[1]))
				os.MkdirAll(filepath.Dir(dst), 0o755)
				if b, e := os.ReadFile(src); e == nil {
					os.WriteFile(dst, b, 0o644)
				}
				out = append(out, violation{Sub: "fuzz/" + ft.Name, Signature: p.ID + "/fuzz/" + ft.Name, Message: trunc(text, 3000), Replay: dst})
			} else if strings.Contains(text, "panic:") || strings.Contains(text, "fatal error:") {
				logp := keepLog(p.ID, writeTemp(work, text))
				out = append(out, violation{Sub: "fuzz/" + ft.Name, Signature: p.ID + "/fuzz/" + ft.Name, Message: trunc(text, 3000), Replay: logp})
			} else {
				notes = append(notes, ft.Name+": fuzz run ended abnormally without a crasher (ignored): "+trunc(firstLine(text), 200))
			}
		}
	}
	return out, strings.Join(notes, "; ")
}

func writeTemp(work, text string) string {
	p := filepath.Join(work, fmt.Sprintf("fuzz-%d.log", time.Now().UnixNano()))
	os.WriteFile(p, []byte(text), 0o644)
	return p
}
